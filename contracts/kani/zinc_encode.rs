//@inject src/haystack/encoding/zinc/encode.rs
#[cfg(kani)]
mod verif_kani_zinc_encode {
    use super::*;

    /// C01/C04 writer side, keywords (complete over the five keyword-valued scalars): Marker -> M, Remove -> R, NA -> NA,
    /// true -> T, false -> F -- exactly the spellings the Zinc lexer's keyword table maps back to these values
    #[kani::proof]
    #[kani::unwind(6)]
    fn k_zinc_keywords() {
        let which: u8 = kani::any();
        kani::assume(which < 5);
        let mut out: Vec<u8> = Vec::new();
        let r = match which {
            0 => Marker.to_zinc(&mut out),
            1 => Remove.to_zinc(&mut out),
            2 => Na.to_zinc(&mut out),
            3 => Bool { value: true }.to_zinc(&mut out),
            _ => Bool { value: false }.to_zinc(&mut out),
        };
        assert!(r.is_ok());
        kani::cover!(which == 2 && out.len() == 2);
        let want: &[u8] = match which { 0 => b"M", 1 => b"R", 2 => b"NA", 3 => b"T", _ => b"F" };
        assert!(out.as_slice() == want);
    }

    fn stub_format(_a: std::fmt::Arguments<'_>) -> String { String::new() }

}
