//@inject src/haystack/encoding/zinc/encode.rs
#[cfg(kani)]
mod verif_kani_zinc_encode {
    use super::*;

    /// C01/C04 writer side, keywords (complete over the five keyword-valued scalars): Marker -> M, Remove -> R, NA -> NA,
    /// true -> T, false -> F -- exactly the spellings the Zinc lexer's keyword table maps back to these values
    #[kani::proof]
    #[kani::unwind(6)]
    fn k_zinc_keywords() {
        let which: u8 = kani::any();
        kani::assume(which < 5);
        let mut out: Vec<u8> = Vec::new();
        let r = match which {
            0 => Marker.to_zinc(&mut out),
            1 => Remove.to_zinc(&mut out),
            2 => Na.to_zinc(&mut out),
            3 => Bool { value: true }.to_zinc(&mut out),
            _ => Bool { value: false }.to_zinc(&mut out),
        };
        assert!(r.is_ok());
        kani::cover!(which == 2 && out.len() == 2);
        let want: &[u8] = match which { 0 => b"M", 1 => b"R", 2 => b"NA", 3 => b"T", _ => b"F" };
        assert!(out.as_slice() == want);
    }

    fn stub_format(_a: std::fmt::Arguments<'_>) -> String { String::new() }

    fn escape_roundtrip(text: &str, letter: u8) {
        use crate::haystack::encoding::zinc::decode::scanner::Scanner;
        use crate::haystack::encoding::zinc::decode::scalar::str::parse_str;
        let mut out: Vec<u8> = Vec::new();
        let r = write_quoted_str(&mut out, text);
        assert!(r.is_ok());
        assert!(out.len() == 4 && out[0] == b'"' && out[1] == b'\\' && out[2] == letter && out[3] == b'"');
        let mut input: &[u8] = out.as_slice();
        let mut scanner = Scanner::make(&mut input).unwrap();
        let back = parse_str(&mut scanner);
        kani::cover!(back.is_ok());
        match &back {
            Ok(s) => assert!(s.value.as_bytes() == text.as_bytes()),
            Err(_) => assert!(false),
        }
        std::mem::forget(back);
    }
    // C01: for each of the six characters the writer escapes with a letter (" TAB CR LF \ $): the real quoted-string writer
    // emits `"` `\` letter `"`, and the real string parser decodes exactly that text back to the character.
    // One harness per character (concrete input: complete for that character).
    #[kani::proof] #[kani::unwind(8)] #[kani::stub(alloc::fmt::format, stub_format)] fn k_zinc_escape_quote() { escape_roundtrip("\"", b'"') }
    #[kani::proof] #[kani::unwind(8)] #[kani::stub(alloc::fmt::format, stub_format)] fn k_zinc_escape_tab() { escape_roundtrip("\t", b't') }
    #[kani::proof] #[kani::unwind(8)] #[kani::stub(alloc::fmt::format, stub_format)] fn k_zinc_escape_cr() { escape_roundtrip("\r", b'r') }
    #[kani::proof] #[kani::unwind(8)] #[kani::stub(alloc::fmt::format, stub_format)] fn k_zinc_escape_lf() { escape_roundtrip("\n", b'n') }
    #[kani::proof] #[kani::unwind(8)] #[kani::stub(alloc::fmt::format, stub_format)] fn k_zinc_escape_backslash() { escape_roundtrip("\\", b'\\') }
    #[kani::proof] #[kani::unwind(8)] #[kani::stub(alloc::fmt::format, stub_format)] fn k_zinc_escape_dollar() { escape_roundtrip("$", b'$') }
}
