//@inject src/haystack/units/unit_dimension.rs
#[cfg(kani)]
mod verif_kani_dim {
    use super::UnitDimensions;
    fn bounded(d: &UnitDimensions) -> bool {
        let ok = |e: i8| e >= -63 && e <= 63;
        ok(d.kg) && ok(d.m) && ok(d.sec) && ok(d.k) && ok(d.a) && ok(d.mol) && ok(d.cd)
    }
    fn any_dim() -> UnitDimensions {
        let d = UnitDimensions { kg: kani::any(), m: kani::any(), sec: kani::any(), k: kani::any(), a: kani::any(), mol: kani::any(), cd: kani::any() };
        kani::assume(bounded(&d));
        d
    }

    /// C16 dimension arithmetic as a contract: requires every exponent in [-63, 63] (the unit table lemma proves [-8, 8]
    /// for every database unit); ensures component-wise sum / difference with no overflow, and (a + b) - b == a
    #[kani::proof]
    fn k_dims_add_sub() {
        let a = any_dim(); let b = any_dim();
        let s = a + b;
        kani::cover!(s.kg == 126);
        assert!(s.kg as i32 == a.kg as i32 + b.kg as i32 && s.m as i32 == a.m as i32 + b.m as i32 && s.sec as i32 == a.sec as i32 + b.sec as i32
            && s.k as i32 == a.k as i32 + b.k as i32 && s.a as i32 == a.a as i32 + b.a as i32 && s.mol as i32 == a.mol as i32 + b.mol as i32
            && s.cd as i32 == a.cd as i32 + b.cd as i32);
        let d = a - b;
        assert!(d.kg as i32 == a.kg as i32 - b.kg as i32 && d.m as i32 == a.m as i32 - b.m as i32 && d.sec as i32 == a.sec as i32 - b.sec as i32
            && d.k as i32 == a.k as i32 - b.k as i32 && d.a as i32 == a.a as i32 - b.a as i32 && d.mol as i32 == a.mol as i32 - b.mol as i32
            && d.cd as i32 == a.cd as i32 - b.cd as i32);
        assert!(s - b == a);
    }
}
