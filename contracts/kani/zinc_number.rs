//@inject src/haystack/encoding/zinc/decode/scalar/number.rs
#[cfg(kani)]
mod verif_kani_zinc_number {
    use super::is_unit_char;
    use super::super::super::scanner::Scanner;

    /// C15/C04: the unit-character class of the Zinc number parser (complete over all 256 byte values): ASCII letters,
    /// `$ / % _` and bytes above 0x80 -- the class every database unit identifier is proved to lie in (unit table lemma)
    #[kani::proof]
    #[kani::unwind(9)]
    fn k_unit_char_class() {
        let c: u8 = kani::any();
        let data = [c];
        let mut r: &[u8] = &data;
        let mut sc = Scanner::make(&mut r).unwrap();
        kani::cover!(is_unit_char(&mut sc));
        let want = (c >= b'a' && c <= b'z') || (c >= b'A' && c <= b'Z') || c == b'$' || c == b'/' || c == b'%' || c == b'_' || c > 128;
        assert!(is_unit_char(&mut sc) == want);
    }
}
