//@inject src/haystack/filter/nodes.rs
#[cfg(kani)]
mod verif_kani_cmp {
    use super::{cmp_values, CmpOp};
    use crate::haystack::val::*;

    /// every heap-free kind, with fully symbolic payloads
    fn any_scalar() -> Value {
        let k: u8 = kani::any();
        kani::assume(k < 7);
        match k {
            0 => Value::Null, 1 => Value::Marker, 2 => Value::Na, 3 => Value::Remove,
            4 => Value::Bool(Bool { value: kani::any() }),
            5 => Value::Coord(Coord { lat: kani::any(), long: kani::any() }),
            _ => { let x: f64 = kani::any(); kani::assume(!x.is_nan()); Value::Number(Number { value: x, unit: None }) }
        }
    }
    fn any_op() -> CmpOp {
        let k: u8 = kani::any();
        kani::assume(k < 6);
        match k { 0 => CmpOp::Eq, 1 => CmpOp::NotEq, 2 => CmpOp::LessThan, 3 => CmpOp::LessThanEq, 4 => CmpOp::GreatThan, _ => CmpOp::GreatThanEq }
    }

    fn check_number_literal(op: CmpOp) {
        let lhs = any_scalar();
        // NaN is excluded: a filter literal cannot be NaN, and `derive(PartialOrd)` on Value orders NaN differently
        // on the repository's toolchain and on Kani's nightly (which derives partial_cmp from Ord::cmp)
        let y: f64 = kani::any();
        kani::assume(!y.is_nan());
        let rhs = Value::Number(Number { value: y, unit: None });
        let r = cmp_values(&op, &lhs, &rhs);
        kani::cover!(r);
        kani::cover!(!r && !lhs.is_null());
        if lhs.is_null() { assert!(!r); }
        let x = match &lhs { Value::Number(n) => Some(n.value), _ => None };
        match op {
            CmpOp::Eq => assert!(r == (x.is_some() && x.unwrap() == y)),
            CmpOp::NotEq => assert!(r == (!lhs.is_null() && !(x.is_some() && x.unwrap() == y))),
            CmpOp::LessThan => assert!(r == (x.is_some() && x.unwrap() < y)),
            CmpOp::LessThanEq => assert!(r == (x.is_some() && x.unwrap() <= y)),
            CmpOp::GreatThan => assert!(r == (x.is_some() && x.unwrap() > y)),
            CmpOp::GreatThanEq => assert!(r == (x.is_some() && x.unwrap() >= y)),
        }
        std::mem::forget(lhs); std::mem::forget(rhs);
    }
    // C07 comparison kernel against a Number literal, one harness per operator (each complete over the 7 heap-free
    // kinds x all f64): holds only if the tag has a value; ordering operators only for a Number ordered as stated;
    // == iff that Number; != iff a value that is not that Number.
    #[kani::proof] #[kani::unwind(3)] fn k_cmp_eq() { check_number_literal(CmpOp::Eq) }
    #[kani::proof] #[kani::unwind(3)] fn k_cmp_ne() { check_number_literal(CmpOp::NotEq) }
    #[kani::proof] #[kani::unwind(3)] fn k_cmp_lt() { check_number_literal(CmpOp::LessThan) }
    #[kani::proof] #[kani::unwind(3)] fn k_cmp_le() { check_number_literal(CmpOp::LessThanEq) }
    #[kani::proof] #[kani::unwind(3)] fn k_cmp_gt() { check_number_literal(CmpOp::GreatThan) }
    #[kani::proof] #[kani::unwind(3)] fn k_cmp_ge() { check_number_literal(CmpOp::GreatThanEq) }

    /// C07 same-kind rule for a second literal kind: `tag < true` style comparisons against a Bool literal
    #[kani::proof]
    #[kani::unwind(3)]
    fn k_cmp_lt_bool_literal() {
        let lhs = any_scalar();
        let y: bool = kani::any();
        let rhs = Value::Bool(Bool { value: y });
        let r = cmp_values(&CmpOp::LessThan, &lhs, &rhs);
        kani::cover!(r);
        let x = match &lhs { Value::Bool(b) => Some(b.value), _ => None };
        assert!(r == (x.is_some() && !x.unwrap() && y));
        std::mem::forget(lhs); std::mem::forget(rhs);
    }
}
