//@inject src/haystack/timezone/mod.rs
#[cfg(kani)]
mod verif_kani_tz {
    use super::fixed_timezone;
    fn stub_format(_a: std::fmt::Arguments<'_>) -> String { String::from("Etc/") }

    fn any_offset(buf: &mut [u8; 6]) -> [u8; 4] {
        let d: [u8; 4] = kani::any();
        kani::assume(d[0] >= b'0' && d[0] <= b'9' && d[1] >= b'0' && d[1] <= b'9' && d[2] >= b'0' && d[2] <= b'5' && d[3] >= b'0' && d[3] <= b'9');
        let neg: bool = kani::any();
        *buf = [if neg { b'-' } else { b'+' }, d[0], d[1], b':', d[2], d[3]];
        d
    }

    /// C06 (complete over all +-HH:MM, digits 0-9 0-9 : 0-5 0-9; format! stubbed): the zone is "UTC" exactly for the
    /// zero offset -- no other offset may be mapped to UTC
    #[kani::proof]
    #[kani::unwind(8)]
    #[kani::stub(alloc::fmt::format, stub_format)]
    fn k_fixed_tz_utc_iff_zero() {
        let mut buf = [0u8; 6];
        let d = any_offset(&mut buf);
        let s = std::str::from_utf8(&buf).unwrap();
        let r = fixed_timezone(s);
        let zero = d[0] == b'0' && d[1] == b'0' && d[2] == b'0' && d[3] == b'0';
        kani::cover!(zero);
        kani::cover!(!zero);
        assert!((r.as_str() == "UTC") == zero);
        std::mem::forget(r);
    }

}
