//@inject src/haystack/units/unit.rs
#[cfg(kani)]
mod verif_kani_unit {
    use super::*;
    fn stub_format(_a: std::fmt::Arguments<'_>) -> String { String::new() }
    fn any_dims() -> Option<UnitDimensions> {
        if kani::any() { Some(UnitDimensions { kg: kani::any(), m: kani::any(), sec: kani::any(), k: kani::any(), a: kani::any(), mol: kani::any(), cd: kani::any() }) } else { None }
    }
    /// finite, moderately sized: keeps Kani's own NaN/overflow side-checks on the conversion formula quiet; the guard
    /// under test does not read these values
    fn any_moderate() -> f64 { let x: f64 = kani::any(); kani::assume(x.is_finite() && x.abs() <= 1e9); x }
    fn any_unit(bytes: bool) -> Unit {
        let scale = any_moderate();
        kani::assume(scale.abs() >= 1e-9);
        Unit { quantity: if bytes { Some("bytes".to_string()) } else { None }, ids: Vec::new(), dimensions: any_dims(), scale, offset: any_moderate() }
    }

    /// C16 conversion guard (complete over all dimension vectors, scales, offsets, and the byte-unit flag of both sides):
    /// converting succeeds exactly when the units measure the same dimension (or both are byte units)
    #[kani::proof]
    #[kani::unwind(10)]
    #[kani::stub(alloc::fmt::format, stub_format)]
    fn k_convert_guard() {
        let ba: bool = kani::any(); let bb: bool = kani::any();
        let a = any_unit(ba); let b = any_unit(bb);
        let x = any_moderate();
        let r = a.convert_to(x, &b);
        kani::cover!(r.is_ok() && !(ba && bb));
        kani::cover!(r.is_err());
        assert!(a.is_byte_unit() == ba && b.is_byte_unit() == bb);
        assert!(r.is_ok() == ((ba && bb) || a.dimensions == b.dimensions));
        std::mem::forget(a); std::mem::forget(b); std::mem::forget(r);
    }

    /// C16 conversion formula, offset part (bounded stand-in: both scales fixed to 1.0; all moderate finite scalars and
    /// offsets; same dimensions): the result is bit-for-bit ((x * 1 + offset) - to.offset) / 1 -- offsets are never skipped
    #[kani::proof]
    #[kani::unwind(10)]
    #[kani::stub(alloc::fmt::format, stub_format)]
    fn k_convert_offsets() {
        let d = any_dims();
        let mut a = any_unit(false); let mut b = any_unit(false);
        a.dimensions = d; b.dimensions = d;
        a.scale = 1.0; b.scale = 1.0;
        let x = any_moderate();
        let r = a.convert_to(x, &b);
        kani::cover!(r.is_ok());
        match &r {
            Ok(v) => assert!(v.to_bits() == (((x * a.scale + a.offset) - b.offset) / b.scale).to_bits()),
            Err(_) => assert!(false),
        }
        std::mem::forget(a); std::mem::forget(b); std::mem::forget(r);
    }
}
