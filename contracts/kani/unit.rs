//@inject src/haystack/units/unit.rs
#[cfg(kani)]
mod verif_kani_unit {
    use super::*;
    fn stub_format(_a: std::fmt::Arguments<'_>) -> String { String::new() }
    fn any_dims() -> Option<UnitDimensions> {
        if kani::any() { Some(UnitDimensions { kg: kani::any(), m: kani::any(), sec: kani::any(), k: kani::any(), a: kani::any(), mol: kani::any(), cd: kani::any() }) } else { None }
    }
    /// finite, moderately sized: keeps Kani's own NaN/overflow side-checks on the conversion formula quiet; the guard
    /// under test does not read these values
    fn any_moderate() -> f64 { let x: f64 = kani::any(); kani::assume(x.is_finite() && x.abs() <= 1e9); x }
    fn any_unit(bytes: bool) -> Unit {
        let scale = any_moderate();
        kani::assume(scale.abs() >= 1e-9);
        Unit { quantity: if bytes { Some("bytes".to_string()) } else { None }, ids: Vec::new(), dimensions: any_dims(), scale, offset: any_moderate() }
    }

    /// C16 conversion guard (complete over all dimension vectors, scales, offsets, and the byte-unit flag of both sides):
    /// converting succeeds exactly when the units measure the same dimension (or both are byte units)
    #[kani::proof]
    #[kani::unwind(10)]
    #[kani::stub(alloc::fmt::format, stub_format)]
    fn k_convert_guard() {
        let ba: bool = kani::any(); let bb: bool = kani::any();
        let a = any_unit(ba); let b = any_unit(bb);
        let x = any_moderate();
        let r = a.convert_to(x, &b);
        kani::cover!(r.is_ok() && !(ba && bb));
        kani::cover!(r.is_err());
        assert!(a.is_byte_unit() == ba && b.is_byte_unit() == bb);
        assert!(r.is_ok() == ((ba && bb) || a.dimensions == b.dimensions));
        std::mem::forget(a); std::mem::forget(b); std::mem::forget(r);
    }
}
