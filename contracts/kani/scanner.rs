//@inject src/haystack/encoding/zinc/decode/scanner.rs
#[cfg(kani)]
mod verif_kani_scanner {
    use super::Scanner;
    use std::io::{Error, ErrorKind, Read};
    fn stub_format(_a: std::fmt::Arguments<'_>) -> String { String::new() }

    /// A reader that delivers `data` in symbolic chunk sizes, with symbolic Interrupted errors.
    struct Chunky { data: [u8; 3], pos: usize, budget: u8 }
    impl Read for Chunky {
        fn read(&mut self, buf: &mut [u8]) -> std::io::Result<usize> {
            if self.budget > 0 && kani::any() { self.budget -= 1; return Err(Error::from(ErrorKind::Interrupted)); }
            if self.pos >= 3 || buf.is_empty() { return Ok(0); }
            let max = core::cmp::min(buf.len(), 3 - self.pos);
            let n: usize = kani::any();
            kani::assume(n >= 1 && n <= max);
            let mut i = 0;
            while i < n { buf[i] = self.data[self.pos + i]; i += 1; }
            self.pos += n;
            Ok(n)
        }
    }

    /// C11/C03 reader contract (bounded: 3-byte stream, <= 2 Interrupted results, symbolic chunk lengths): the real
    /// Scanner::make / read_byte deliver the bytes in order whatever the chunking and set is_eof only at the end
    #[kani::proof]
    #[kani::unwind(5)]
    #[kani::stub(alloc::fmt::format, stub_format)]
    fn k_reader_chunks() {
        let data: [u8; 3] = kani::any();
        let mut r = Chunky { data, pos: 0, budget: 2 };
        let mut sc = Scanner::make(&mut r).unwrap();
        assert!(!sc.is_eof && sc.cur == data[0]);
        let b1 = sc.read_byte();
        assert!(matches!(b1, Ok(b) if b == data[1]));
        let b2 = sc.read_byte();
        assert!(matches!(b2, Ok(b) if b == data[2]));
        assert!(!sc.is_eof);
        let b3 = sc.read_byte();
        kani::cover!(b3.is_err());
        assert!(b3.is_err() && sc.is_eof);
        std::mem::forget(b3);
    }

    struct Chunky2 { data: [u8; 2], pos: usize, budget: u8 }
    impl Read for Chunky2 {
        fn read(&mut self, buf: &mut [u8]) -> std::io::Result<usize> {
            if self.budget > 0 && kani::any() { self.budget -= 1; return Err(Error::from(ErrorKind::Interrupted)); }
            if self.pos >= 2 || buf.is_empty() { return Ok(0); }
            let max = core::cmp::min(buf.len(), 2 - self.pos);
            let n: usize = kani::any();
            kani::assume(n >= 1 && n <= max);
            let mut i = 0;
            while i < n { buf[i] = self.data[self.pos + i]; i += 1; }
            self.pos += n;
            Ok(n)
        }
    }

    /// the same reader-contract check on a 2-byte stream with <= 1 Interrupted result (bounded; the quick-tier variant)
    #[kani::proof]
    #[kani::unwind(4)]
    #[kani::stub(alloc::fmt::format, stub_format)]
    fn k_reader_chunks_small() {
        let data: [u8; 2] = kani::any();
        let mut r = Chunky2 { data, pos: 0, budget: 1 };
        let mut sc = Scanner::make(&mut r).unwrap();
        assert!(!sc.is_eof && sc.cur == data[0]);
        let b1 = sc.read_byte();
        assert!(matches!(b1, Ok(b) if b == data[1]));
        assert!(!sc.is_eof);
        let b2 = sc.read_byte();
        kani::cover!(b2.is_err());
        assert!(b2.is_err() && sc.is_eof);
        std::mem::forget(b2);
    }

    /// cross-discharge of the byte-class contracts the Verus units assume for the scanner predicates (complete over
    /// all 256 byte values, on the real methods through a 1-byte slice reader), incl. every is_any_of literal in use
    #[kani::proof]
    #[kani::unwind(9)]
    fn k_scanner_classes() {
        let c: u8 = kani::any();
        let data = [c];
        let mut r: &[u8] = &data;
        let sc = Scanner::make(&mut r).unwrap();
        kani::cover!(sc.is_space());
        assert!(sc.cur == c && !sc.is_eof);
        assert!(sc.is_space() == (c == b' ' || c == b'\t'));
        assert!(sc.is_newline() == (c == b'\r' || c == b'\n'));
        assert!(sc.is_white_space() == (c == b' ' || c == b'\t' || c == b'\r' || c == b'\n'));
        assert!(sc.is_any_of("eE") == (c == b'e' || c == b'E'));
        assert!(sc.is_any_of("+-") == (c == b'+' || c == b'-'));
        assert!(sc.is_any_of("_.-") == (c == b'_' || c == b'.' || c == b'-'));
        assert!(sc.is_any_of("~:-._") == (c == b'~' || c == b':' || c == b'-' || c == b'.' || c == b'_'));
        assert!(sc.is_any_of("$/%_") == (c == b'$' || c == b'/' || c == b'%' || c == b'_'));
        assert!(sc.is_any_of("_/+-") == (c == b'_' || c == b'/' || c == b'+' || c == b'-'));
        assert!(sc.is_digit() == (c >= b'0' && c <= b'9'));
        assert!(sc.is_lower() == (c >= b'a' && c <= b'z'));
        assert!(sc.is_upper() == (c >= b'A' && c <= b'Z'));
        assert!(sc.is_alpha() == ((c >= b'a' && c <= b'z') || (c >= b'A' && c <= b'Z')));
        assert!(sc.is_alpha_num() == ((c >= b'0' && c <= b'9') || (c >= b'a' && c <= b'z') || (c >= b'A' && c <= b'Z')));
        assert!(sc.is_hex_digit() == ((c >= b'0' && c <= b'9') || (c >= b'a' && c <= b'f') || (c >= b'A' && c <= b'F')));
        assert!(sc.is_in_range(&(b'0'..=b'9')) == (c >= b'0' && c <= b'9'));
        assert!(sc.is_in_range(&(b'A'..=b'Z')) == (c >= b'A' && c <= b'Z'));
    }

    /// the byte classes of std's u8 predicates assumed by the Verus prelude (complete over all 256 values)
    #[kani::proof]
    fn k_u8_classes() {
        let c: u8 = kani::any();
        kani::cover!(c.is_ascii_hexdigit());
        assert!(c.is_ascii_digit() == (48 <= c && c <= 57));
        assert!(c.is_ascii_lowercase() == (97 <= c && c <= 122));
        assert!(c.is_ascii_uppercase() == (65 <= c && c <= 90));
        assert!(c.is_ascii_hexdigit() == ((48 <= c && c <= 57) || (65 <= c && c <= 70) || (97 <= c && c <= 102)));
        assert!(c.is_ascii_whitespace() == (c == 32 || c == 9 || c == 10 || c == 12 || c == 13));
        assert!(c.is_ascii_alphabetic() == ((65 <= c && c <= 90) || (97 <= c && c <= 122)));
        assert!(c.is_ascii_alphanumeric() == ((48 <= c && c <= 57) || (65 <= c && c <= 90) || (97 <= c && c <= 122)));
    }
}
