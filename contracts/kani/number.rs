//@inject src/haystack/val/number.rs
#[cfg(kani)]
mod verif_kani_number {
    use super::*;
    use crate::units::Unit;
    use std::cmp::Ordering;
    use std::hash::{Hash, Hasher};

    /// records the exact byte stream fed to the hasher (stronger than comparing one hash function's output)
    struct Rec { buf: [u8; 32], n: usize }
    impl Hasher for Rec {
        fn finish(&self) -> u64 { 0 }
        fn write(&mut self, bytes: &[u8]) { for b in bytes { if self.n < 32 { self.buf[self.n] = *b; self.n += 1; } } }
    }
    fn mk_unit(name: &str, scale: f64) -> &'static Unit {
        Box::leak(Box::new(Unit { quantity: None, ids: vec![name.to_string()], dimensions: None, scale, offset: 0.0 }))
    }
    fn pick(k: u8, u1: &'static Unit, u2: &'static Unit) -> Option<&'static Unit> {
        match k { 0 => None, 1 => Some(u1), _ => Some(u2) }
    }
    fn any_non_nan() -> f64 { let x: f64 = kani::any(); kani::assume(!x.is_nan()); x }

    /// C12 (complete over all non-NaN f64, unit-less): == is an equivalence; cmp is a total order that is Equal exactly
    /// when == holds; partial_cmp agrees with cmp
    #[kani::proof]
    #[kani::unwind(4)]
    fn k_number_laws() {
        let a = Number { value: any_non_nan(), unit: None };
        let b = Number { value: any_non_nan(), unit: None };
        let c = Number { value: any_non_nan(), unit: None };
        kani::cover!(a == b && a.value.to_bits() != b.value.to_bits());
        assert!(a == a);
        assert!((a == b) == (b == a));
        if a == b && b == c { assert!(a == c); }
        assert!((a.cmp(&b) == Ordering::Equal) == (a == b));
        assert!(a.cmp(&b) == b.cmp(&a).reverse());
        if a.cmp(&b) != Ordering::Greater && b.cmp(&c) != Ordering::Greater { assert!(a.cmp(&c) != Ordering::Greater); }
        assert!(a.partial_cmp(&b) == Some(a.cmp(&b)));
        let d = a; // Copy / Clone
        assert!(d == a && a.clone() == a);
    }

    /// C12 (complete over all non-NaN f64): a == b  =>  identical byte stream fed to any Hasher
    #[kani::proof]
    #[kani::unwind(34)]
    fn k_number_eq_hash() {
        let a = Number { value: any_non_nan(), unit: None };
        let b = Number { value: any_non_nan(), unit: None };
        kani::cover!(a == b && a.value.to_bits() != b.value.to_bits());
        if a == b {
            let mut ha = Rec { buf: [0; 32], n: 0 };
            let mut hb = Rec { buf: [0; 32], n: 0 };
            a.hash(&mut ha);
            b.hash(&mut hb);
            assert!(ha.n == hb.n && ha.buf == hb.buf);
            assert!(ha.n > 0);
        }
    }

    /// C12 (all non-NaN f64 x unit in {none, m, s}): cmp is Equal exactly when == holds
    #[kani::proof]
    #[kani::unwind(6)]
    fn k_number_units_cmp_eq() {
        let u1 = mk_unit("m", 1.0);
        let u2 = mk_unit("s", 1.0);
        let ka: u8 = kani::any(); let kb: u8 = kani::any();
        kani::assume(ka < 3 && kb < 3);
        let a = Number { value: any_non_nan(), unit: pick(ka, u1, u2) };
        let b = Number { value: any_non_nan(), unit: pick(kb, u1, u2) };
        kani::cover!(a.value == b.value && ka != kb);
        assert!((a.cmp(&b) == Ordering::Equal) == (a == b));
    }

    /// C12 (all non-NaN f64 x unit in {none, m, s}): whenever partial_cmp answers, it is cmp's answer
    #[kani::proof]
    #[kani::unwind(6)]
    fn k_number_units_partial_total() {
        let u1 = mk_unit("m", 1.0);
        let u2 = mk_unit("s", 1.0);
        let ka: u8 = kani::any(); let kb: u8 = kani::any();
        kani::assume(ka < 3 && kb < 3);
        let a = Number { value: any_non_nan(), unit: pick(ka, u1, u2) };
        let b = Number { value: any_non_nan(), unit: pick(kb, u1, u2) };
        kani::cover!(a.partial_cmp(&b).is_some());
        kani::cover!(a.partial_cmp(&b).is_none());
        if let Some(o) = a.partial_cmp(&b) { assert!(o == a.cmp(&b)); }
    }

    fn stub_format(_a: std::fmt::Arguments<'_>) -> String { String::new() }
    fn any_moderate() -> f64 { let x: f64 = kani::any(); kani::assume(x.is_finite() && x.abs() <= 1e9); x }

    /// C16 (all moderate finite f64 x unit in {none, m, s}): + and - keep the common unit (a unit-less operand adopts the
    /// other's unit) and fail exactly when both operands carry different units; the magnitude is the f64 sum / difference
    #[kani::proof]
    #[kani::unwind(6)]
    #[kani::stub(alloc::fmt::format, stub_format)]
    fn k_number_add_sub() {
        let u1 = mk_unit("m", 1.0);
        let u2 = mk_unit("s", 1.0);
        let ka: u8 = kani::any(); let kb: u8 = kani::any();
        kani::assume(ka < 3 && kb < 3);
        let (x, y) = (any_moderate(), any_moderate());
        let a = Number { value: x, unit: pick(ka, u1, u2) };
        let b = Number { value: y, unit: pick(kb, u1, u2) };
        let sub: bool = kani::any();
        let r = if sub { a - b } else { a + b };
        let differ = ka != 0 && kb != 0 && ka != kb;
        kani::cover!(r.is_ok() && ka != kb);
        kani::cover!(r.is_err());
        assert!(r.is_err() == differ);
        if let Ok(n) = &r {
            assert!(n.value == if sub { x - y } else { x + y });
            if ka != 0 { assert!(n.unit == a.unit); }
            else if kb != 0 { assert!(n.unit == b.unit); }
        }
        std::mem::forget(r);
    }
}
