//@inject src/haystack/val/coord.rs
#[cfg(kani)]
mod verif_kani_coord {
    use super::*;
    use std::cmp::Ordering;
    use std::hash::{Hash, Hasher};
    struct Rec { buf: [u8; 32], n: usize }
    impl Hasher for Rec {
        fn finish(&self) -> u64 { 0 }
        fn write(&mut self, bytes: &[u8]) { for b in bytes { if self.n < 32 { self.buf[self.n] = *b; self.n += 1; } } }
    }
    fn any_coord() -> Coord {
        let lat: f64 = kani::any(); let long: f64 = kani::any();
        kani::assume(!lat.is_nan() && !long.is_nan());
        Coord { lat, long }
    }

    /// C12 (complete over all non-NaN f64 pairs): equivalence, total order, Equal iff ==, partial agrees with total
    #[kani::proof]
    #[kani::unwind(4)]
    fn k_coord_laws() {
        let a = any_coord(); let b = any_coord(); let c = any_coord();
        kani::cover!(a == b && a.lat.to_bits() != b.lat.to_bits());
        assert!(a == a);
        assert!((a == b) == (b == a));
        if a == b && b == c { assert!(a == c); }
        assert!((a.cmp(&b) == Ordering::Equal) == (a == b));
        assert!(a.cmp(&b) == b.cmp(&a).reverse());
        if a.cmp(&b) != Ordering::Greater && b.cmp(&c) != Ordering::Greater { assert!(a.cmp(&c) != Ordering::Greater); }
        assert!(a.partial_cmp(&b) == Some(a.cmp(&b)));
        let d = a;
        assert!(d == a && a.clone() == a);
    }

    /// C12 (complete): a == b  =>  identical byte stream fed to any Hasher
    #[kani::proof]
    #[kani::unwind(34)]
    fn k_coord_eq_hash() {
        let a = any_coord(); let b = any_coord();
        kani::cover!(a == b && a.long.to_bits() != b.long.to_bits());
        if a == b {
            let mut ha = Rec { buf: [0; 32], n: 0 };
            let mut hb = Rec { buf: [0; 32], n: 0 };
            a.hash(&mut ha);
            b.hash(&mut hb);
            assert!(ha.n == hb.n && ha.buf == hb.buf);
            assert!(ha.n > 0);
        }
    }
}
