//@inject src/haystack/val/kind.rs
#[cfg(kani)]
mod verif_kani_kind {
    use super::HaystackKind;
    fn stub_format(_a: std::fmt::Arguments<'_>) -> String { String::new() }

    fn any_kind() -> (HaystackKind, u8) {
        let c: u8 = kani::any();
        kani::assume(c < 18);
        // a fieldless 18-variant enum occupies one byte holding the discriminant
        (unsafe { std::mem::transmute::<u8, HaystackKind>(c) }, c)
    }

    /// C19: kind <-> numeric code is one-to-one over all 256 codes (complete)
    #[kani::proof]
    #[kani::unwind(2)]
    #[kani::stub(alloc::fmt::format, stub_format)]
    fn k_kind_u8() {
        let c: u8 = kani::any();
        let r = HaystackKind::try_from(c);
        kani::cover!(r.is_ok());
        kani::cover!(r.is_err());
        match &r {
            Ok(k) => { assert!(c <= 17); assert!(*k as u8 == c); }
            Err(_) => assert!(c > 17),
        }
        std::mem::forget(r);
    }

    /// C19: every kind's code converts back to that kind (complete over the 18 kinds)
    #[kani::proof]
    #[kani::unwind(2)]
    #[kani::stub(alloc::fmt::format, stub_format)]
    fn k_kind_code_roundtrip() {
        let (k, c) = any_kind();
        assert!(k as u8 == c);
        let r = HaystackKind::try_from(k as u8);
        kani::cover!(r.is_ok());
        assert!(r == Ok(k));
        std::mem::forget(r);
    }

    /// C19: kind <-> name: the name of every kind parses back to that kind, hence the 18 names are pairwise distinct
    #[kani::proof]
    #[kani::unwind(10)]
    #[kani::stub(alloc::fmt::format, stub_format)]
    fn k_kind_name_roundtrip() {
        let (k, _c) = any_kind();
        let name: &'static str = k.into();
        let r = HaystackKind::try_from(name);
        kani::cover!(r.is_ok());
        assert!(r == Ok(k));
        assert!(name.len() >= 2 && name.len() <= 8);
        std::mem::forget(r);
    }

    /// C19 (bounded by length 9, the longest name has 8 bytes): a string that parses as kind k is k's name
    #[kani::proof]
    #[kani::unwind(11)]
    #[kani::stub(alloc::fmt::format, stub_format)]
    fn k_kind_name_injective() {
        let bytes: [u8; 9] = kani::any();
        let len: usize = kani::any();
        kani::assume(len <= 9);
        let mut i = 0;
        while i < 9 { kani::assume(bytes[i] < 128); i += 1; }
        let s = unsafe { std::str::from_utf8_unchecked(&bytes[..len]) };
        let r = HaystackKind::try_from(s);
        kani::cover!(r.is_ok());
        if let Ok(k) = &r {
            let name: &'static str = (*k).into();
            assert!(name.len() == len);
            assert!(name.as_bytes() == &bytes[..len]);
        }
        std::mem::forget(r);
    }
}
