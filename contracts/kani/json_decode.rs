//@inject src/haystack/encoding/json/decode.rs
#[cfg(kani)]
mod verif_kani_json_decode {
    use super::JsonValueDecoderVisitor;
    use crate::haystack::val::Value as HVal;
    use serde::de::Visitor;

    #[derive(Debug)]
    pub struct E;
    impl std::fmt::Display for E { fn fmt(&self, _f: &mut std::fmt::Formatter) -> std::fmt::Result { Ok(()) } }
    impl std::error::Error for E {}
    impl serde::de::Error for E { fn custom<T: std::fmt::Display>(_m: T) -> Self { E } }

    fn is_num(r: &Result<HVal, E>, want: f64) -> bool {
        match r { Ok(HVal::Number(n)) => n.unit.is_none() && n.value.to_bits() == want.to_bits(), _ => false }
    }

    /// C02/C05 reader side (complete over every integer width and all f64): a JSON number of any spelling class serde_json
    /// hands over -- signed, unsigned, float -- becomes the unit-less Number with exactly that value
    #[kani::proof]
    #[kani::unwind(2)]
    fn k_json_visit_numbers() {
        let which: u8 = kani::any();
        kani::assume(which < 9);
        let v = JsonValueDecoderVisitor;
        let ok = match which {
            0 => { let x: i8 = kani::any(); let r = v.visit_i8::<E>(x); let ok = is_num(&r, x as f64); std::mem::forget(r); ok }
            1 => { let x: i16 = kani::any(); let r = v.visit_i16::<E>(x); let ok = is_num(&r, x as f64); std::mem::forget(r); ok }
            2 => { let x: i32 = kani::any(); let r = v.visit_i32::<E>(x); let ok = is_num(&r, x as f64); std::mem::forget(r); ok }
            3 => { let x: i64 = kani::any(); let r = v.visit_i64::<E>(x); let ok = is_num(&r, x as f64); std::mem::forget(r); ok }
            4 => { let x: u8 = kani::any(); let r = v.visit_u8::<E>(x); let ok = is_num(&r, x as f64); std::mem::forget(r); ok }
            5 => { let x: u16 = kani::any(); let r = v.visit_u16::<E>(x); let ok = is_num(&r, x as f64); std::mem::forget(r); ok }
            6 => { let x: u32 = kani::any(); let r = v.visit_u32::<E>(x); let ok = is_num(&r, x as f64); std::mem::forget(r); ok }
            7 => { let x: u64 = kani::any(); let r = v.visit_u64::<E>(x); let ok = is_num(&r, x as f64); std::mem::forget(r); ok }
            _ => { let x: f64 = kani::any(); let r = v.visit_f64::<E>(x); let ok = is_num(&r, x); std::mem::forget(r); ok }
        };
        kani::cover!(which == 7);
        assert!(ok);
    }

    /// C05 reader side: JSON true/false/null become Bool / Null
    #[kani::proof]
    #[kani::unwind(2)]
    fn k_json_visit_bool_null() {
        let b: bool = kani::any();
        let r = JsonValueDecoderVisitor.visit_bool::<E>(b);
        kani::cover!(b);
        assert!(matches!(&r, Ok(HVal::Bool(x)) if x.value == b));
        let n = JsonValueDecoderVisitor.visit_unit::<E>();
        assert!(matches!(&n, Ok(HVal::Null)));
        std::mem::forget(r); std::mem::forget(n);
    }
}
