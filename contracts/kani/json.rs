//@inject src/haystack/encoding/json/encode.rs
#[cfg(kani)]
mod verif_kani_json {
    use crate::haystack::val::{Coord, Marker, Na, Number, Ref, Remove, Symbol, Uri, XStr};
    use crate::units::Unit;
    use serde::ser::{Impossible, Serialize, SerializeMap, Serializer};

    #[derive(Debug)]
    pub struct E;
    impl std::fmt::Display for E { fn fmt(&self, _f: &mut std::fmt::Formatter) -> std::fmt::Result { Ok(()) } }
    impl std::error::Error for E {}
    impl serde::ser::Error for E { fn custom<T: std::fmt::Display>(_m: T) -> Self { E } }

    /// one recorded serializer call: tag + scalar payload (strings: length and first 8 bytes)
    #[derive(Clone, Copy, PartialEq)]
    pub struct Ev { tag: u8, f: u64, n: usize, s: [u8; 8] }
    const T_I64: u8 = 1; const T_U64: u8 = 2; const T_F64: u8 = 3; const T_STR: u8 = 4; const T_BOOL: u8 = 5;
    const T_NONE: u8 = 6; const T_MAP: u8 = 7; const T_END: u8 = 8; const T_OTHER: u8 = 9; const T_SOME: u8 = 10;
    pub struct Log { ev: [Ev; 10], n: usize }
    impl Log {
        fn new() -> Log { Log { ev: [Ev { tag: 0, f: 0, n: 0, s: [0; 8] }; 10], n: 0 } }
        fn push(&mut self, tag: u8, f: u64, st: &str) {
            let mut s = [0u8; 8];
            let b = st.as_bytes();
            let mut i = 0;
            while i < 8 && i < b.len() { s[i] = b[i]; i += 1; }
            if self.n < 10 { self.ev[self.n] = Ev { tag, f, n: b.len(), s }; }
            self.n += 1;
        }
        fn is_str(&self, i: usize, lit: &str) -> bool {
            let mut s = [0u8; 8];
            let b = lit.as_bytes();
            let mut k = 0;
            while k < 8 && k < b.len() { s[k] = b[k]; k += 1; }
            i < self.n && self.ev[i].tag == T_STR && self.ev[i].n == b.len() && self.ev[i].s == s
        }
    }
    pub struct S<'a>(&'a mut Log);
    pub struct M<'a>(&'a mut Log);
    impl<'a> SerializeMap for M<'a> {
        type Ok = (); type Error = E;
        fn serialize_key<T: ?Sized + Serialize>(&mut self, key: &T) -> Result<(), E> { key.serialize(S(&mut *self.0)) }
        fn serialize_value<T: ?Sized + Serialize>(&mut self, value: &T) -> Result<(), E> { value.serialize(S(&mut *self.0)) }
        fn end(self) -> Result<(), E> { self.0.push(T_END, 0, ""); Ok(()) }
    }
    impl<'a> Serializer for S<'a> {
        type Ok = (); type Error = E;
        type SerializeSeq = Impossible<(), E>; type SerializeTuple = Impossible<(), E>;
        type SerializeTupleStruct = Impossible<(), E>; type SerializeTupleVariant = Impossible<(), E>;
        type SerializeMap = M<'a>; type SerializeStruct = Impossible<(), E>;
        type SerializeStructVariant = Impossible<(), E>;
        fn serialize_bool(self, v: bool) -> Result<(), E> { self.0.push(T_BOOL, v as u64, ""); Ok(()) }
        fn serialize_i8(self, v: i8) -> Result<(), E> { self.0.push(T_I64, v as i64 as u64, ""); Ok(()) }
        fn serialize_i16(self, v: i16) -> Result<(), E> { self.0.push(T_I64, v as i64 as u64, ""); Ok(()) }
        fn serialize_i32(self, v: i32) -> Result<(), E> { self.0.push(T_I64, v as i64 as u64, ""); Ok(()) }
        fn serialize_i64(self, v: i64) -> Result<(), E> { self.0.push(T_I64, v as u64, ""); Ok(()) }
        fn serialize_u8(self, v: u8) -> Result<(), E> { self.0.push(T_U64, v as u64, ""); Ok(()) }
        fn serialize_u16(self, v: u16) -> Result<(), E> { self.0.push(T_U64, v as u64, ""); Ok(()) }
        fn serialize_u32(self, v: u32) -> Result<(), E> { self.0.push(T_U64, v as u64, ""); Ok(()) }
        fn serialize_u64(self, v: u64) -> Result<(), E> { self.0.push(T_U64, v, ""); Ok(()) }
        fn serialize_f32(self, v: f32) -> Result<(), E> { self.0.push(T_F64, (v as f64).to_bits(), ""); Ok(()) }
        fn serialize_f64(self, v: f64) -> Result<(), E> { self.0.push(T_F64, v.to_bits(), ""); Ok(()) }
        fn serialize_char(self, _v: char) -> Result<(), E> { self.0.push(T_OTHER, 0, ""); Ok(()) }
        fn serialize_str(self, v: &str) -> Result<(), E> { self.0.push(T_STR, 0, v); Ok(()) }
        fn serialize_bytes(self, _v: &[u8]) -> Result<(), E> { self.0.push(T_OTHER, 0, ""); Ok(()) }
        fn serialize_none(self) -> Result<(), E> { self.0.push(T_NONE, 0, ""); Ok(()) }
        fn serialize_some<T: ?Sized + Serialize>(self, v: &T) -> Result<(), E> { self.0.push(T_SOME, 0, ""); v.serialize(S(&mut *self.0)) }
        fn serialize_unit(self) -> Result<(), E> { self.0.push(T_OTHER, 0, ""); Ok(()) }
        fn serialize_unit_struct(self, _n: &'static str) -> Result<(), E> { self.0.push(T_OTHER, 0, ""); Ok(()) }
        fn serialize_unit_variant(self, _n: &'static str, _i: u32, _v: &'static str) -> Result<(), E> { self.0.push(T_OTHER, 0, ""); Ok(()) }
        fn serialize_newtype_struct<T: ?Sized + Serialize>(self, _n: &'static str, _v: &T) -> Result<(), E> { self.0.push(T_OTHER, 0, ""); Ok(()) }
        fn serialize_newtype_variant<T: ?Sized + Serialize>(self, _n: &'static str, _i: u32, _v: &'static str, _x: &T) -> Result<(), E> { self.0.push(T_OTHER, 0, ""); Ok(()) }
        fn serialize_seq(self, _l: Option<usize>) -> Result<Self::SerializeSeq, E> { Err(E) }
        fn serialize_tuple(self, _l: usize) -> Result<Self::SerializeTuple, E> { Err(E) }
        fn serialize_tuple_struct(self, _n: &'static str, _l: usize) -> Result<Self::SerializeTupleStruct, E> { Err(E) }
        fn serialize_tuple_variant(self, _n: &'static str, _i: u32, _v: &'static str, _l: usize) -> Result<Self::SerializeTupleVariant, E> { Err(E) }
        fn serialize_map(self, l: Option<usize>) -> Result<M<'a>, E> { self.0.push(T_MAP, l.unwrap_or(99) as u64, ""); Ok(M(self.0)) }
        fn serialize_struct(self, _n: &'static str, _l: usize) -> Result<Self::SerializeStruct, E> { Err(E) }
        fn serialize_struct_variant(self, _n: &'static str, _i: u32, _v: &'static str, _l: usize) -> Result<Self::SerializeStructVariant, E> { Err(E) }
    }

    /// C02/C05 (complete over all f64): a unit-less finite number is written as one JSON number that denotes exactly
    /// that value (integer form only when exact and not -0); a non-finite one as the Hayson map
    /// {"_kind":"number","val":"INF"|"-INF"|"NaN"} -- never as a bare f64, which serde_json prints as null.
    #[kani::proof]
    #[kani::unwind(10)]
    fn k_json_number_exact() {
        let v: f64 = kani::any();
        let n = Number { value: v, unit: None };
        let mut log = Log::new();
        let r = n.serialize(S(&mut log));
        assert!(r.is_ok());
        kani::cover!(v.is_finite() && log.ev[0].tag == T_I64);
        kani::cover!(v.is_finite() && log.ev[0].tag == T_F64);
        kani::cover!(!v.is_finite());
        if v.is_finite() {
            assert!(log.n == 1);
            let e = log.ev[0];
            match e.tag {
                T_I64 => { let i = e.f as i64; assert!((i as f64) == v); assert!(!(v == 0.0 && v.is_sign_negative())); }
                T_U64 => { assert!((e.f as f64) == v); assert!(!(v == 0.0 && v.is_sign_negative())); }
                T_F64 => assert!(e.f == v.to_bits()),
                _ => assert!(false),
            }
        } else {
            assert!(log.n == 6);
            assert!(log.ev[0].tag == T_MAP && log.ev[0].f == 2);
            assert!(log.is_str(1, "_kind") && log.is_str(2, "number") && log.is_str(3, "val"));
            if v.is_nan() { assert!(log.is_str(4, "NaN")); }
            else if v > 0.0 { assert!(log.is_str(4, "INF")); }
            else { assert!(log.is_str(4, "-INF")); }
            assert!(log.ev[5].tag == T_END);
        }
    }

    /// C02/C05 (complete over all finite f64): a number with a unit is {"_kind":"number","val":<that f64>,"unit":<symbol>}
    #[kani::proof]
    #[kani::unwind(10)]
    fn k_json_number_unit_trace() {
        let u: &'static Unit = Box::leak(Box::new(Unit { quantity: None, ids: vec!["kilogram".to_string(), "kg".to_string()], dimensions: None, scale: 1.0, offset: 0.0 }));
        let v: f64 = kani::any();
        kani::assume(v.is_finite());
        let n = Number { value: v, unit: Some(u) };
        let mut log = Log::new();
        let r = n.serialize(S(&mut log));
        assert!(r.is_ok());
        kani::cover!(log.n == 8);
        assert!(log.n == 8);
        assert!(log.ev[0].tag == T_MAP && log.ev[0].f == 3);
        assert!(log.is_str(1, "_kind") && log.is_str(2, "number") && log.is_str(3, "val"));
        assert!(log.ev[4].tag == T_F64 && log.ev[4].f == v.to_bits());
        assert!(log.is_str(5, "unit") && log.is_str(6, "kg"));
        assert!(log.ev[7].tag == T_END);
    }

    /// C05 (complete over the branch structure, payload strings concrete): the member names and "_kind" values of
    /// Marker, NA, Remove, Coord, Symbol, Uri, Ref (with/without dis) and XStr are those of the Hayson table
    #[kani::proof]
    #[kani::unwind(10)]
    fn k_json_scalar_traces() {
        let which: u8 = kani::any();
        kani::assume(which < 9);
        let mut log = Log::new();
        let lat: f64 = kani::any(); let lng: f64 = kani::any();
        let r = match which {
            0 => Marker.serialize(S(&mut log)),
            1 => Na.serialize(S(&mut log)),
            2 => Remove.serialize(S(&mut log)),
            3 => Coord { lat, long: lng }.serialize(S(&mut log)),
            4 => { let v = Symbol { value: "ab".to_string() }; let r = v.serialize(S(&mut log)); std::mem::forget(v); r }
            5 => { let v = Uri { value: "ab".to_string() }; let r = v.serialize(S(&mut log)); std::mem::forget(v); r }
            6 => { let v = Ref { value: "ab".to_string(), dis: None }; let r = v.serialize(S(&mut log)); std::mem::forget(v); r }
            7 => { let v = Ref { value: "ab".to_string(), dis: Some("cd".to_string()) }; let r = v.serialize(S(&mut log)); std::mem::forget(v); r }
            _ => { let v = XStr { r#type: "Ty".to_string(), value: "ab".to_string() }; let r = v.serialize(S(&mut log)); std::mem::forget(v); r }
        };
        assert!(r.is_ok());
        kani::cover!(which == 7 && log.n == 9);
        assert!(log.ev[0].tag == T_MAP && log.is_str(1, "_kind"));
        match which {
            0 => assert!(log.n == 4 && log.ev[0].f == 1 && log.is_str(2, "marker") && log.ev[3].tag == T_END),
            1 => assert!(log.n == 4 && log.ev[0].f == 1 && log.is_str(2, "na") && log.ev[3].tag == T_END),
            2 => assert!(log.n == 4 && log.ev[0].f == 1 && log.is_str(2, "remove") && log.ev[3].tag == T_END),
            3 => assert!(log.n == 8 && log.ev[0].f == 3 && log.is_str(2, "coord") && log.is_str(3, "lat") && log.ev[4].tag == T_F64
                         && log.ev[4].f == lat.to_bits() && log.is_str(5, "lng") && log.ev[6].tag == T_F64 && log.ev[6].f == lng.to_bits()
                         && log.ev[7].tag == T_END),
            4 => assert!(log.n == 6 && log.ev[0].f == 2 && log.is_str(2, "symbol") && log.is_str(3, "val") && log.is_str(4, "ab") && log.ev[5].tag == T_END),
            5 => assert!(log.n == 6 && log.ev[0].f == 2 && log.is_str(2, "uri") && log.is_str(3, "val") && log.is_str(4, "ab") && log.ev[5].tag == T_END),
            6 => assert!(log.n == 6 && log.ev[0].f == 2 && log.is_str(2, "ref") && log.is_str(3, "val") && log.is_str(4, "ab") && log.ev[5].tag == T_END),
            7 => assert!(log.n == 9 && log.ev[0].f == 3 && log.is_str(2, "ref") && log.is_str(3, "val") && log.is_str(4, "ab")
                         && log.is_str(5, "dis") && log.ev[6].tag == T_SOME && log.is_str(7, "cd") && log.ev[8].tag == T_END),
            _ => assert!(log.n == 8 && log.ev[0].f == 3 && log.is_str(2, "xstr") && log.is_str(3, "type") && log.is_str(4, "Ty")
                         && log.is_str(5, "val") && log.is_str(6, "ab") && log.ev[7].tag == T_END),
        }
    }
}
