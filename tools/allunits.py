#!/usr/bin/env python3
"""Build and verify every Verus unit named in vxlib/props.py once (sanity after editing a shared template)."""
import os, subprocess, sys, time
HERE = os.path.dirname(os.path.dirname(os.path.abspath(__file__)))
sys.path.insert(0, HERE)
import vxlib.props as P
from vxlib import verus as V
repo = os.environ.get('VX_REPO', '/repo')
units = sorted({u[0] for v in P.PROPS.values() for u in v.get('verus', [])})
bad = 0
for u in units:
    r = V.run_unit(repo, os.path.join(HERE, 'contracts'), u, os.path.join(HERE, '.work', 'verus'), rlimit=30)
    print(u, r.status, r.verified, 'verified', r.errors, 'errors', r.reason[:200] if r.status != 'ok' else '')
    bad += (r.status != 'ok') or (r.errors > 0)
sys.exit(1 if bad else 0)
