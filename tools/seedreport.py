#!/usr/bin/env python3
"""Generate seeded/README.md from seeded/*/meta.json."""
import glob, json, os
VERIF = os.path.dirname(os.path.dirname(os.path.abspath(__file__)))
rows = []
for m in sorted(glob.glob(os.path.join(VERIF, 'seeded', '*', 'meta.json'))):
    d = json.load(open(m))
    ev = d.get('evaluation', {})
    name = os.path.basename(os.path.dirname(m))
    if d.get('obsolete'):
        rows.append((name, d.get('property', ev.get('property', '')), 'was', (d.get('what_it_breaks') or '')[:110].replace('|', '/').replace('\n', ' '), '', 'obsolete: ' + d['obsolete'][:160].replace('|', '/')))
        continue
    for prop, c in ev.get('checks', {}).items():
        viol = [l.split('obligation=')[1] for l in c['lines'] if l.startswith('VIOLATION')]
        und = [l for l in c['lines'] if l.startswith('UNDECIDED')]
        if c['exit'] == 1:
            verdict = 'CAUGHT: ' + '; '.join(viol[:3])
        elif c['exit'] == 2:
            verdict = 'undecided (exit 2): ' + (und[0].split('reason=')[1][:110] if und else '')
        else:
            verdict = 'not caught (outside the decided part)'
        if d.get('note') and c['exit'] != 1:
            verdict += ' -- note: ' + d['note'][:150].replace('|', '/')
        rows.append((name, prop, 'yes' if ev.get('confirmed') else 'NO', (d.get('what_it_breaks') or '')[:110].replace('|', '/').replace('\n', ' '),
                     (str(d.get('needs_to_manifest') or ''))[:110].replace('|', '/').replace('\n', ' '), verdict.replace('|', '/')))
out = ['# Seeded changes', '',
       'Each directory holds `patch.diff` (apply with `git -C /repo apply`), `demo.rs` (fails with the change, passes without) and',
       '`meta.json` (what it breaks, what it needs to manifest, what was run, the verdict of the check, copies of the replay files).',
       'Changes were written by independent sub-agents that saw only the property text; each was confirmed here with `tools/seedeval.py`',
       '(demo passes on the clean tree, the 365-test suite passes with the change, demo fails with the change).', '',
       '| change | property | confirmed | what it breaks | needs | verdict of `./vx check` |', '|---|---|---|---|---|---|']
for r in rows:
    out.append('| ' + ' | '.join(r) + ' |')
n = len(rows); caught = sum(1 for r in rows if r[5].startswith('CAUGHT')); und = sum(1 for r in rows if r[5].startswith('undecided'))
out += ['', f'{caught} of {n} caught as a violation, {und} flagged undecided (exit 2, never green), {n - caught - und} not caught; every miss lies in a part',
        'the corresponding section of DESIGN.md lists under "not decided".']
open(os.path.join(VERIF, 'seeded', 'README.md'), 'w').write('\n'.join(out) + '\n')
print('\n'.join(out[-3:]))
