#!/usr/bin/env python3
"""Confirm a seeded change and run the matching check against it.

usage: tools/seedeval.py <property> <dir with patch.diff demo.rs meta.json> <name>

1. scratch worktree of /repo HEAD under /tmp; demo must pass there (exit 0)
2. apply patch; `cargo test --workspace --no-fail-fast --offline` must pass; demo must fail
3. VX_REPO=<worktree> ./vx check <property> [extra properties]  -> record exit code and lines
4. store everything under /verif/seeded/<name>/ ; remove the worktree
"""
import json
import os
import shutil
import subprocess
import sys
import time

VERIF = os.path.dirname(os.path.dirname(os.path.abspath(__file__)))


def sh(cmd, cwd=None, timeout=3600, env=None):
    e = dict(os.environ, CARGO_NET_OFFLINE='true')
    if env:
        e.update(env)
    try:
        p = subprocess.run(cmd, shell=True, cwd=cwd, stdout=subprocess.PIPE, stderr=subprocess.STDOUT, text=True, timeout=timeout, env=e)
        return p.returncode, p.stdout
    except subprocess.TimeoutExpired as ex:
        return 124, (ex.stdout or '') if isinstance(ex.stdout, str) else 'timeout'


def main():
    prop, src, name = sys.argv[1], os.path.abspath(sys.argv[2]), sys.argv[3]
    extra = sys.argv[4:]
    wt = f'/tmp/ev_{name}'
    sh(f'git -C /repo worktree remove --force {wt}')
    rc, out = sh(f'git -C /repo worktree add -q {wt} HEAD')
    res = dict(property=prop, name=name, source=src, checks={})
    try:
        os.makedirs(f'{wt}/examples', exist_ok=True)
        shutil.copy(f'{src}/demo.rs', f'{wt}/examples/seed_demo.rs')
        rc0, out0 = sh('cargo run --offline --example seed_demo', cwd=wt, timeout=1800)
        res['demo_without_change'] = dict(exit=rc0, tail=out0[-600:])
        rc, out = sh(f'git apply {src}/patch.diff', cwd=wt)
        res['patch_applies'] = rc == 0
        if rc != 0:
            res['error'] = out[-400:]
        else:
            rct, outt = sh('cargo test --workspace --no-fail-fast --offline 2>&1 | grep -E "^test result|FAILED|panicked" ', cwd=wt, timeout=3000)
            res['tests_with_change'] = outt[-800:]
            res['tests_pass'] = ('FAILED' not in outt) and ('test result: ok' in outt) and ('failed;' not in outt.replace('0 failed;', ''))
            rc1, out1 = sh('timeout 300 cargo run --offline --example seed_demo', cwd=wt, timeout=1800)
            res['demo_with_change'] = dict(exit=rc1, tail=out1[-800:])
            res['confirmed'] = bool(rc0 == 0 and rc1 != 0 and res['tests_pass'])
            os.remove(f'{wt}/examples/seed_demo.rs')
            for p in [prop] + extra:
                t0 = time.time()
                rcv, outv = sh(f'./vx check {p}', cwd=VERIF, timeout=5400, env={'VX_REPO': wt})
                lines = [l for l in outv.split('\n') if l.startswith(('VIOLATION', 'UNDECIDED', 'KNOWN', p + ':'))]
                res['checks'][p] = dict(exit=rcv, lines=lines, wall_s=round(time.time() - t0, 1))
                # keep replay files of this run
                dst = f'{VERIF}/seeded/{name}'
                os.makedirs(dst, exist_ok=True)
                for l in lines:
                    if l.startswith('VIOLATION'):
                        rp = l.split('replay=')[1].split()[0]
                        if os.path.exists(rp):
                            shutil.copy(rp, f'{dst}/replay-{os.path.basename(rp)}')
    finally:
        sh(f'git -C /repo worktree remove --force {wt}')
        sh(f'rm -rf {wt}')
    dst = f'{VERIF}/seeded/{name}'
    os.makedirs(dst, exist_ok=True)
    if os.path.abspath(src) != os.path.abspath(dst):
        shutil.copy(f'{src}/patch.diff', f'{dst}/patch.diff')
        shutil.copy(f'{src}/demo.rs', f'{dst}/demo.rs')
    meta = {}
    try:
        meta = json.load(open(f'{src}/meta.json'))
    except Exception:
        pass
    meta['evaluation'] = res
    json.dump(meta, open(f'{dst}/meta.json', 'w'), indent=1)
    print(json.dumps(dict(name=name, confirmed=res.get('confirmed'), checks={k: (v['exit'], v['lines']) for k, v in res['checks'].items()}), indent=1))
    # restore the replay crate to /repo
    pass


if __name__ == '__main__':
    main()
