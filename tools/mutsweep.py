#!/usr/bin/env python3
"""Mutation sweep: simple operator mutants of one source file; keeps those the test-suite does not kill and runs the given
property checks (from a clone of /verif) against them.   usage: mutsweep.py <verif-clone> <worktree> <file> <max> <props...>"""
import json, os, random, re, subprocess, sys, time

verif, wt, rel, maxn = sys.argv[1], sys.argv[2], sys.argv[3], int(sys.argv[4])
props = sys.argv[5:]
OPS = [(r' == ', ' != '), (r' != ', ' == '), (r' < ', ' <= '), (r' <= ', ' < '), (r' > ', ' >= '), (r' >= ', ' > '),
       (r' && ', ' || '), (r' \|\| ', ' && '), (r'\btrue\b', 'false'), (r'\bfalse\b', 'true'), (r' \+ 1\b', ' + 2'), (r' - 1\b', ' - 0'),
       (r'\bif !', 'if '), (r'\.is_some\(\)', '.is_none()'), (r'\.is_none\(\)', '.is_some()'), (r'\b0\.\.', '1..'), (r'\?;$', '.ok();')]
env = dict(os.environ, CARGO_NET_OFFLINE='true')

def sh(cmd, cwd, timeout=3000, extra=None):
    e = dict(env); e.update(extra or {})
    try:
        p = subprocess.run(cmd, shell=True, cwd=cwd, stdout=subprocess.PIPE, stderr=subprocess.STDOUT, text=True, timeout=timeout, env=e)
        return p.returncode, p.stdout
    except subprocess.TimeoutExpired:
        return 124, 'timeout'

path = os.path.join(wt, rel)
orig = open(path, newline='').read()
lines = orig.split('\n')
end = len(lines)
for i, l in enumerate(lines):
    if '#[cfg(test)]' in l:
        end = i; break
cands = []
for i in range(end):
    l = lines[i]
    s = l.strip()
    if s.startswith('//') or s.startswith('#[') or s.startswith('use ') or 'make_generic_err' in s or 'format!' in s:
        continue
    for rx, rep in OPS:
        for m in re.finditer(rx, l):
            cands.append((i, m.start(), m.end(), rep))
random.seed(7)
random.shuffle(cands)
out = []
tag = rel.replace('/', '_')
log = open(os.path.join(os.environ.get('SWEEP_OUT', '/var/tmp/ms'), f'result_{tag}.jsonl'), 'a')
n = 0
for (i, a, b, rep) in cands:
    if n >= maxn: break
    ml = lines[i][:a] + rep + lines[i][b:]
    new = lines[:]; new[i] = ml
    open(path, 'w', newline='').write('\n'.join(new))
    rc, o = sh('cargo test --workspace --offline --lib --tests 2>&1 | grep -E "^test result|^error|FAILED" | head -20', wt)
    ok = ('test result: ok' in o) and ('FAILED' not in o) and ('error' not in o) and ('failed;' not in o.replace(' 0 failed;', ''))
    rec = dict(file=rel, line=i + 1, before=lines[i].strip(), after=ml.strip(), tests_pass=ok)
    if ok:
        n += 1
        rec['checks'] = {}
        for p in props:
            t0 = time.time()
            rcv, outv = sh(f'./vx check {p}', verif, 5400, {'VX_REPO': wt})
            ls = [x for x in outv.split('\n') if x.startswith(('VIOLATION', 'UNDECIDED'))]
            rec['checks'][p] = dict(exit=rcv, lines=[x[:260] for x in ls[:3]], wall=round(time.time() - t0))
        rec['caught'] = any(c['exit'] == 1 for c in rec['checks'].values())
        rec['undecided'] = any(c['exit'] == 2 for c in rec['checks'].values())
    log.write(json.dumps(rec) + '\n'); log.flush()
    print(json.dumps(rec)[:400], flush=True)
open(path, 'w', newline='').write(orig)
