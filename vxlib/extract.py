"""Template processor: builds one Verus file per unit from a .vt template and /repo's working tree.

A template is Verus source in which real items are *named, not copied*:

    //@fn src/haystack/encoding/zinc/decode/scanner.rs :: Scanner :: consume_spaces
    //@  spec: requires old(self).wf(),
    //@        ensures final(self).wf(),
    //@  loop 1: invariant self.wf(), decreases self.measure(),

Every directive block is replaced by the item's current source text from /repo, passed through the
fixed rewrite rules of rules.py (each firing is recorded), with the spec text spliced between
signature and body and loop specs spliced after the k-th loop header.
"""
import hashlib
import os
import re

from . import rustscan as rs
from . import rules as R


class Undecided(Exception):
    """Lost anchor / rule refusal / unsupported construct: the check cannot decide (exit 2)."""


class Emitted:
    def __init__(self):
        self.kind = None
        self.ident = None        # e.g. Scanner::read  or parse_str
        self.mode = None         # verify | trusted
        self.src_file = None
        self.src_lines = None
        self.sha256 = None
        self.rules = {}
        self.gen_lines = None
        self.directive = None


def _read(path):
    with open(path, encoding='utf-8') as f:
        return f.read()


def parse_directive(lines):
    """lines: the raw '//@...' lines of one block.  Returns (kind, head, opts) where opts is a list
    of (key, text) in order; continuation lines (no 'key:' prefix) extend the previous value."""
    first = lines[0].strip()[3:].strip()
    kind, _, head = first.partition(' ')
    opts = []
    keyre = re.compile(r'^(spec|loop \d+|sub|sig|mode|name|ghost|after|before|closure \d+|rules|drop_attrs|keep|impl_as|field|attr|presub)\s*:\s?(.*)$')
    for ln in lines[1:]:
        body = ln.strip()[3:]
        if body.startswith(' '):
            body = body[1:]
        m = keyre.match(body.strip())
        m2 = re.match(r'^(after|before)\s+("(?:[^"\\]|\\.)*"\s*:.*)$', body.strip(), re.S)
        if m2:
            opts.append([m2.group(1), m2.group(2)])
        elif m:
            opts.append([m.group(1), m.group(2)])
        else:
            if not opts:
                opts.append(['_cont', body])
            else:
                opts[-1][1] += '\n' + body
    return kind, head.strip(), opts


def split_sig(code):
    """code: item text starting at modifiers of a fn.  Returns dict with pieces of the signature.
    Works on token level so strings/comments cannot confuse it."""
    toks = rs.tokenize(code)
    ct = rs.code_toks(toks)
    i = 0
    while ct[i].text != 'fn':
        i += 1
    name_tok = ct[i + 1]
    j = i + 2
    gen = None
    if ct[j].text == '<':
        depth = 0
        k = j
        while True:
            if ct[k].text == '<':
                depth += 1
            elif ct[k].text == '>':
                depth -= 1
                if depth == 0:
                    break
            k += 1
        gen = (ct[j].start, ct[k].end)
        j = k + 1
    if ct[j].text != '(':
        raise Undecided('cannot parse signature of ' + name_tok.text)
    pclose = rs.match_close(ct, j)
    params = (ct[j].start, ct[pclose].end)
    k = pclose + 1
    ret = None
    where = None
    if ct[k].text == '->':
        rstart = ct[k + 1].start
        m = k + 1
        while ct[m].text not in ('{', 'where') or False:
            if ct[m].text in ('(', '['):
                m = rs.match_close(ct, m)
            m += 1
        ret = (rstart, ct[m - 1].end)
        k = m
    if ct[k].text == 'where':
        m = k
        while ct[m].text != '{':
            if ct[m].text in ('(', '['):
                m = rs.match_close(ct, m)
            m += 1
        where = (ct[k].start, ct[m - 1].end)
        k = m
    if ct[k].text != '{':
        raise Undecided('no body for ' + name_tok.text)
    bclose = rs.match_close(ct, k)
    return dict(prefix_end=ct[i].start, fn_kw=ct[i].start, name=(name_tok.start, name_tok.end), gen=gen,
                params=params, ret=ret, where=where, body=(ct[k].start, ct[bclose].end))


def find_loops(body):
    """Return list of (kw_start, body_brace_pos) for every loop/while/for in source order.
    `for` inside `impl ... for` cannot occur in a fn body; closures' `for<'a>` neither."""
    toks = rs.tokenize(body)
    ct = rs.code_toks(toks)
    res = []
    for i, t in enumerate(ct):
        if t.kind == 'ident' and t.text in ('loop', 'while', 'for'):
            # label: 'a: loop -- fine.  find first '{' at paren depth 0
            k = i + 1
            while k < len(ct):
                x = ct[k]
                if x.kind == 'punct' and x.text in ('(', '['):
                    k = rs.match_close(ct, k)
                elif x.kind == 'punct' and x.text == '{':
                    break
                k += 1
            if k >= len(ct):
                raise Undecided('loop without body')
            res.append((t.start, ct[k].start))
    return res


def find_closures(body):
    """positions just after the closing '|' of each closure head `|args|` (heuristic: a '|' that
    follows '(' or ',' or '=' starts a closure)."""
    ct = rs.code_toks(rs.tokenize(body))
    res = []
    i = 0
    while i < len(ct):
        t = ct[i]
        if t.text in ('|', '||') and i > 0 and ct[i - 1].text in ('(', ',', '=', 'move', 'return'):
            if t.text == '||':
                res.append(t.end)
            else:
                k = i + 1
                while ct[k].text != '|':
                    k += 1
                res.append(ct[k].end)
                i = k
        i += 1
    return res


class Builder:
    def __init__(self, repo, contracts_dir):
        self.repo = repo
        self.cdir = contracts_dir
        self.emitted = []
        self.out_lines = []
        self.src_cache = {}
        self.assumption_tags = []
        self.unit_rules = set(R.DEFAULT_RULES)
        self.extra_subs = []   # unit-wide substitutions: (name, regex, repl)
        self.defines = {}
        self.known_consts = set()     # const / static names already present in the output

    def _expand(self, text):
        for _ in range(4):
            new = re.sub(r'\$([A-Z][A-Z0-9_]*)', lambda m: self.defines.get(m.group(1), m.group(0)), text)
            if new == text:
                break
            text = new
        return text

    def src(self, rel):
        if rel not in self.src_cache:
            p = os.path.join(self.repo, rel)
            if not os.path.exists(p):
                raise Undecided(f'lost anchor: file {rel} does not exist')
            self.src_cache[rel] = _read(p)
        return self.src_cache[rel]

    # -- emit helpers
    def emit(self, text):
        for ln in text.split('\n'):
            self.out_lines.append(ln)

    def build(self, template_path):
        self._prescan(template_path, set())
        self._process_file(template_path, set())
        text = '\n'.join(self.out_lines) + '\n'
        return self._default_fmt_helpers(text)

    def _default_fmt_helpers(self, text):
        """R6b default: a `wfmt_<tag>` call whose literal has no helper declared in the template gets the default contract
        (core::fmt renders it into the Vec without failing; the bytes are unspecified).  Code that starts formatting
        through a new literal therefore fails any postcondition that pins the output down, instead of being undecided."""
        defined = set(re.findall(r'\bfn\s+(wfmt_\w+)', text))
        need = {}
        for m in re.finditer(r'\b(wfmt_\w+)\s*\(', text):
            name = m.group(1)
            if name in defined:
                continue
            depth, i, commas = 1, m.end(), 0
            while i < len(text) and depth:
                c = text[i]
                if c in '([{':
                    depth += 1
                elif c in ')]}':
                    depth -= 1
                elif c == ',' and depth == 1:
                    commas += 1
                i += 1
            need[name] = commas      # arguments after the writer
        if not need:
            return text
        lines = ['', 'verus! {', '// R6b default helpers [trusted: core::fmt renders a literal not listed in the template; returns Ok, bytes unspecified]']
        for name, n in sorted(need.items()):
            tps = ', '.join(f'T{i}' for i in range(n))
            args = ''.join(f', a{i}: T{i}' for i in range(n))
            lines.append(f'#[verifier::external_body] pub fn {name}<{tps}>(w: &mut Vec<u8>{args}) -> (r: std::result::Result<(), std::io::Error>) ensures r is Ok {{ unimplemented!() }}')
        lines.append('} // verus!')
        # insert before the final `fn main`
        idx = text.rfind('fn main()')
        if idx < 0:
            return text + '\n'.join(lines) + '\n'
        return text[:idx] + '\n'.join(lines) + '\n' + text[idx:]

    def _prescan(self, path, seen):
        """collect the names of consts the templates declare themselves (directives or hand-written), so that the
        automatic const inclusion does not duplicate them"""
        if path in seen or not os.path.exists(path):
            return
        seen.add(path)
        for ln in _read(path).split('\n'):
            st = ln.strip()
            m = re.match(r'//@include\s+(\S+)', st)
            if m:
                self._prescan(os.path.join(os.path.dirname(path), m.group(1)), seen)
            m = re.match(r'//@(?:const|static)\s+.*::\s*(\w+)\s*$', st)
            if m:
                self.known_consts.add(m.group(1))
            m = re.search(r'\b(?:const|static)\s+([A-Z][A-Z0-9_]+)\s*:', st)
            if m and not st.startswith('//'):
                self.known_consts.add(m.group(1))

    def _auto_consts(self, rel, src, text):
        """R17: a file-level `const NAME: T = ...;` referenced by an extracted function is extracted with it"""
        for name in sorted(set(re.findall(r'\b([A-Z][A-Z0-9_]{2,})\b', rs.strip_comments(text)))):
            if name in self.known_consts:
                continue
            try:
                it = rs.find_item(src, 'const', name, None)
            except rs.ScanError:
                continue
            orig = src[it.attrs_start:it.end]
            fired = {'R17': 1}
            ctext = R.apply_rules(rs.strip_comments(orig), self.unit_rules, fired, self.extra_subs)
            ctext = re.sub(r'^\s*(pub(\([^)]*\))?\s+)?const\b', 'pub const', ctext.strip())
            e = Emitted()
            e.kind = 'const'
            e.ident = name
            e.impl = None
            e.mode = 'verbatim'
            e.src_file = rel
            l0 = src.count('\n', 0, it.attrs_start) + 1
            e.src_lines = (l0, l0 + orig.count('\n'))
            e.sha256 = hashlib.sha256(orig.encode()).hexdigest()
            e.rules = fired
            start = len(self.out_lines) + 1
            self.emit(ctext)
            e.gen_lines = (start, len(self.out_lines))
            e.directive = 'auto const ' + name
            self.emitted.append(e)
            self.known_consts.add(name)

    def _process_file(self, path, seen):
        if path in seen:
            return
        seen.add(path)
        lines = _read(path).split('\n')
        i = 0
        while i < len(lines):
            ln = lines[i]
            s = ln.strip()
            if s.startswith('//@'):
                block = [ln]
                i += 1
                while i < len(lines) and lines[i].strip().startswith('//@ ') or (i < len(lines) and lines[i].strip() == '//@'):
                    block.append(lines[i]); i += 1
                self._directive(block, path, seen)
                continue
            self.out_lines.append(ln)
            i += 1

    def _directive(self, block, path, seen):
        kind, head, opts = parse_directive(block)
        if kind == 'define':
            name, _, text = head.partition(' ')
            for k, v in opts:
                text += '\n' + v
            self.defines[name] = text
            return
        for o in opts:
            o[1] = self._expand(o[1])
        if kind == 'include':
            inc = os.path.join(os.path.dirname(path), head)
            self._process_file(inc, seen)
        elif kind == 'rules':
            for w in head.split():
                if w.startswith('+'):
                    self.unit_rules.add(w[1:])
                elif w.startswith('-'):
                    self.unit_rules.discard(w[1:])
        elif kind == 'unitsub':
            # //@unitsub NAME /regex/ => replacement
            m = re.match(r'(\S+)\s+/(.*)/\s*=>\s?(.*)$', head)
            if not m:
                raise Undecided('bad unitsub: ' + head)
            self.extra_subs.append((m.group(1), m.group(2), m.group(3)))
        elif kind == 'fn':
            self._fn(head, opts)
        elif kind in ('struct', 'enum'):
            self._type(kind, head, opts)
        elif kind in ('const', 'static', 'macro', 'type'):
            self._verbatim(kind, head, opts)
        elif kind == 'generate':
            if head.strip() == 'units_table':
                from . import unitsgen
                text, info = unitsgen.generate(self.repo)
                e = Emitted()
                e.kind = 'generated'
                e.ident = 'units_table'
                e.impl = None
                e.mode = 'generated'
                e.src_file = 'src/haystack/units/units_generated.rs'
                e.src_lines = (1, 1)
                e.sha256 = info['sha256']
                e.rules = {'unitsgen': 1}
                start = len(self.out_lines) + 1
                self.emit(text)
                e.gen_lines = (start, len(self.out_lines))
                e.directive = head
                e.info = info
                self.emitted.append(e)
            else:
                raise Undecided('unknown generator ' + head)
        elif kind == 'note':
            pass
        else:
            raise Undecided(f'unknown directive {kind}')

    def _locate(self, kind, head):
        parts = [p.strip() for p in head.split('::')]
        # file :: impl :: name   or   file :: name
        rel = parts[0]
        if len(parts) == 2:
            impl, name = None, parts[1]
        else:
            impl, name = ' :: '.join(parts[1:-1]).replace(' :: ', '::'), parts[-1]
        src = self.src(rel)
        try:
            it = rs.find_item(src, 'macro_rules' if kind == 'macro' else kind, name, impl)
        except rs.ScanError as e:
            raise Undecided(f'lost anchor: {rel}: {e}')
        return rel, src, it, impl, name

    def _apply_subs(self, text, opts, fired, which='sub'):
        for key, val in opts:
            if key != which:
                continue
            m = re.match(r'/(.*)/\s*=>\s?(.*)$', val, re.S)
            if not m:
                raise Undecided('bad sub: ' + val)
            rx, rep = m.group(1), m.group(2)
            new, n = re.subn(rx, rep, text, flags=re.S)
            if n == 0:
                raise Undecided(f'lost anchor: local sub /{rx}/ did not match')
            fired['local:' + rx] = n
            text = new
        return text

    def _fn(self, head, opts):
        rel, src, it, impl, name = self._locate('fn', head)
        od = {}
        for k, v in opts:
            od.setdefault(k, v)
        mode = od.get('mode', 'verify').strip()
        orig = src[it.start:it.end]
        if mode == 'verify' and not (impl and impl not in ('-', '')):
            self._auto_consts(rel, src, orig)
        fired = {}
        text = rs.strip_comments(orig)
        text = self._apply_subs(text, opts, fired, 'presub')
        text = R.apply_rules(text, self.unit_rules, fired, self.extra_subs)
        text = self._apply_subs(text, opts, fired)
        sig = split_sig(text)
        # pieces
        pre = text[:sig['fn_kw']]
        trait_impl = bool(impl and re.search(r'\bfor\b', impl)) and od.get('impl_as', '').strip() != 'inherent'
        pre = R.fix_fn_prefix(pre, fired)
        if trait_impl:
            pre = pre.replace('pub ', '', 1)
        fname = text[sig['name'][0]:sig['name'][1]]
        newname = od.get('name', fname).strip()
        gen = text[sig['gen'][0]:sig['gen'][1]] if sig['gen'] else ''
        params = text[sig['params'][0]:sig['params'][1]]
        params = R.fix_params(params, fired)
        ret = text[sig['ret'][0]:sig['ret'][1]].strip() if sig['ret'] else None
        where = text[sig['where'][0]:sig['where'][1]] if sig['where'] else ''
        body = text[sig['body'][0]:sig['body'][1]]
        if 'sig' in od:
            sigtext = od['sig']
        else:
            sigtext = f'{pre}fn {newname}{gen}{params}'
            if ret is not None:
                sigtext += f' -> (r: {ret})'
            if where:
                sigtext += ' ' + where
        spec = od.get('spec', '')
        if mode == 'trusted':
            out = f'#[verifier::external_body]\n{sigtext}\n{spec}\n{{ unimplemented!() }}'
        elif mode == 'verify':
            body = self._splice_body(body, opts, name)
            attr = od.get('attr', '').strip()
            out = (attr + '\n' if attr else '') + f'{sigtext}\n{spec}\n{body}'
        else:
            raise Undecided('bad mode ' + mode)
        e = Emitted()
        e.kind = 'fn'
        e.ident = (impl.split('for')[-1].strip() + '::' if impl and False else '') + newname
        e.impl = impl
        e.mode = mode
        e.src_file = rel
        l0 = src.count('\n', 0, it.start) + 1
        e.src_lines = (l0, l0 + orig.count('\n'))
        e.sha256 = hashlib.sha256(orig.encode()).hexdigest()
        e.rules = fired
        start = len(self.out_lines) + 1
        self.emit(out)
        e.gen_lines = (start, len(self.out_lines))
        e.directive = head
        self.emitted.append(e)

    def _splice_body(self, body, opts, name):
        # loops first (positions computed on the untouched body), then anchored ghost text
        inserts = []  # (pos, text)
        loops = None
        closures = None
        for key, val in opts:
            m = re.match(r'loop (\d+)$', key)
            if m:
                if loops is None:
                    loops = find_loops(body)
                k = int(m.group(1))
                if k < 1 or k > len(loops):
                    raise Undecided(f'lost anchor: {name}: loop {k} not found ({len(loops)} loops)')
                inserts.append((loops[k - 1][1], '\n' + val + '\n'))
                continue
            m = re.match(r'closure (\d+)$', key)
            if m:
                if closures is None:
                    closures = find_closures(body)
                k = int(m.group(1))
                if k < 1 or k > len(closures):
                    raise Undecided(f'lost anchor: {name}: closure {k} not found')
                inserts.append((closures[k - 1], ' ' + val + ' '))
                continue
            if key in ('after', 'before'):
                m = re.match(r'"((?:[^"\\]|\\.)*)"\s*:\s?(.*)$', val, re.S)
                if not m:
                    raise Undecided('bad after/before: ' + val)
                anchor = m.group(1).replace('\\"', '"').replace('\\n', '\n')   # \" and \n escapes inside an anchor
                cnt = body.count(anchor)
                if cnt != 1:
                    raise Undecided(f'lost anchor: {name}: statement {anchor!r} occurs {cnt} times')
                p = body.index(anchor)
                if key == 'after':
                    p += len(anchor)
                inserts.append((p, '\n' + m.group(2) + '\n'))
                continue
            if key == 'ghost':
                # right after the opening brace
                inserts.append((1, '\n' + val + '\n'))
        if loops is not None:
            # every loop of a verified function must carry a spec (else Verus rejects it anyway)
            pass
        for pos, t in sorted(inserts, key=lambda x: -x[0]):
            body = body[:pos] + t + body[pos:]
        return body

    def _type(self, kind, head, opts):
        rel, src, it, impl, name = self._locate(kind, head)
        orig = src[it.attrs_start:it.end]
        fired = {}
        text = rs.strip_comments(orig)
        text = R.apply_rules(text, self.unit_rules, fired, self.extra_subs)
        text = R.fix_type_decl(text, fired, dict((k, v) for k, v in opts))
        text = self._apply_subs(text, opts, fired)
        e = Emitted()
        e.kind = kind
        e.ident = name
        e.impl = None
        e.mode = 'type'
        e.src_file = rel
        l0 = src.count('\n', 0, it.attrs_start) + 1
        e.src_lines = (l0, l0 + orig.count('\n'))
        e.sha256 = hashlib.sha256(orig.encode()).hexdigest()
        e.rules = fired
        start = len(self.out_lines) + 1
        self.emit(text)
        e.gen_lines = (start, len(self.out_lines))
        e.directive = head
        self.emitted.append(e)

    def _verbatim(self, kind, head, opts):
        rel, src, it, impl, name = self._locate(kind, head)
        orig = src[it.attrs_start:it.end]
        fired = {}
        text = rs.strip_comments(orig)
        text = R.apply_rules(text, self.unit_rules, fired, self.extra_subs)
        text = self._apply_subs(text, opts, fired)
        e = Emitted()
        e.kind = kind
        e.ident = name
        e.impl = None
        e.mode = 'verbatim'
        e.src_file = rel
        l0 = src.count('\n', 0, it.attrs_start) + 1
        e.src_lines = (l0, l0 + orig.count('\n'))
        e.sha256 = hashlib.sha256(orig.encode()).hexdigest()
        e.rules = fired
        start = len(self.out_lines) + 1
        self.emit(text)
        e.gen_lines = (start, len(self.out_lines))
        e.directive = head
        self.emitted.append(e)
