"""Run Kani harnesses on the real crate: harness modules are appended to files of a scratch copy of /repo's
working tree (add-only, all under #[cfg(kani)]), then `cargo kani` builds the real crate with them."""
import fcntl
import glob
import os
import re
import shutil
import subprocess
import time


def _harness_files(contracts):
    return sorted(glob.glob(os.path.join(contracts, 'kani', '*.rs')))


def prepare_copy(repo, contracts, work):
    dst = os.path.join(work, 'kanirepo')
    os.makedirs(dst, exist_ok=True)
    p = subprocess.run(['rsync', '-a', '--delete', '--exclude', 'target', '--exclude', '.git', repo.rstrip('/') + '/', dst + '/'],
                       stdout=subprocess.PIPE, stderr=subprocess.STDOUT, text=True)
    if p.returncode != 0:
        raise RuntimeError('rsync failed: ' + p.stdout[-300:])
    injected = []
    for hf in _harness_files(contracts):
        text = open(hf).read()
        m = re.match(r'//@inject\s+(\S+)', text)
        if not m:
            continue
        target = os.path.join(dst, m.group(1))
        if not os.path.exists(target):
            raise RuntimeError(f'lost anchor: inject target {m.group(1)} missing')
        with open(target, 'a') as f:
            f.write('\n\n// ---- injected by /verif (add-only, cfg(kani)) from ' + os.path.basename(hf) + '\n')
            f.write(text)
        injected.append((os.path.basename(hf), m.group(1)))
    # crate-level attributes some harnesses need
    cfgdir = os.path.join(dst, '.cargo')
    os.makedirs(cfgdir, exist_ok=True)
    with open(os.path.join(cfgdir, 'config.toml'), 'w') as f:
        f.write('[net]\noffline = true\n')
    return dst, injected


def parse_log(log, names):
    """Split the cargo-kani log per harness (plain format, or the `Thread N:` format produced with -j)."""
    res = {}
    bodies = {}      # full harness name -> text
    thread_h = {}
    cur = None
    for ln in log.split('\n'):
        m = re.match(r'^(?:Thread (\d+): )?Checking harness (\S+?)\.\.\.\s*$', ln)
        if m:
            cur = m.group(2)
            bodies.setdefault(cur, '')
            if m.group(1) is not None:
                thread_h[m.group(1)] = cur
            continue
        m = re.match(r'^Thread (\d+): ?(.*)$', ln)
        if m:
            cur = thread_h.get(m.group(1))
            if cur is not None:
                bodies[cur] += m.group(2) + '\n'
            continue
        if ln.startswith('Manual Harness Summary') or ln.startswith('Complete - '):
            cur = None
            continue
        if cur is not None:
            bodies[cur] += ln + '\n'
    for full, body in bodies.items():
        short = full.split('::')[-1]
        d = dict(full=full, status='undecided', reason='no verdict', checks=0, failed_checks=[], covers=None,
                 solver_s=None, concrete=None, log_tail=body[-1500:])
        if re.search(r'timed out|Timeout|TIMEOUT', body) and 'VERIFICATION:- SUCCESSFUL' not in body:
            d['status'] = 'undecided'
            d['reason'] = 'harness timeout'
            res[short] = d
            continue
        m = re.search(r'VERIFICATION:- (SUCCESSFUL|FAILED)', body)
        if m:
            d['status'] = 'success' if m.group(1) == 'SUCCESSFUL' else 'failed'
            d['reason'] = ''
        m = re.search(r'\*\* (\d+) of (\d+) failed', body)
        if m:
            d['checks'] = int(m.group(2))
            d['nfailed'] = int(m.group(1))
        m = re.search(r'\*\* (\d+) of (\d+) cover properties satisfied', body)
        if m:
            d['covers'] = (int(m.group(1)), int(m.group(2)))
        m = re.search(r'Verification Time: ([0-9.]+)s', body)
        if m:
            d['solver_s'] = float(m.group(1))
        fc = re.findall(r'^Failed Checks: (.*)$', body, flags=re.M)
        d['failed_checks'] = fc
        # unwinding assertion failure / unsupported construct => undecided, not a violation
        if d['status'] == 'failed':
            if any('unwinding assertion' in x for x in fc) or re.search(r'\[.*unwind.*\].*FAILURE', body):
                d['status'] = 'undecided'
                d['reason'] = 'unwinding assertion failed (bound too small)'
            elif any('is not currently supported by Kani' in x or 'unsupported' in x.lower() for x in fc):
                d['status'] = 'undecided'
                d['reason'] = 'unsupported construct reached'
        # concrete playback: one generated test per failed check; take the first one that is not a cover check
        blocks = re.findall(r'/// Check for `(\w+)`:.*?let concrete_vals: Vec<Vec<u8>> = vec!\[(.*?)\];', body, flags=re.S)
        chosen = None
        for kind_, txt in blocks:
            if kind_ != 'cover':
                chosen = txt
                break
        if chosen is None and blocks:
            # Kani prints one test per distinct input vector; when the failing assertion shares its vector with a cover
            # check only the cover's test is printed -- use it (the replay on the real code confirms or rejects it)
            chosen = blocks[-1][1]
        if chosen is None:
            m = re.search(r'let concrete_vals: Vec<Vec<u8>> = vec!\[(.*?)\];', body, flags=re.S)
            chosen = m.group(1) if m else None
        if chosen is not None:
            vals = []
            for vm in re.finditer(r'vec!\[([0-9, ]*)\]', chosen):
                vals.append([int(x) for x in vm.group(1).replace(' ', '').split(',') if x != ''])
            d['concrete'] = vals
        if d['status'] == 'success' and d['covers'] is not None and d['covers'][0] < d['covers'][1]:
            d['status'] = 'undecided'
            d['reason'] = f'vacuity guard: only {d["covers"][0]} of {d["covers"][1]} cover properties satisfied'
        if d['status'] == 'success' and d['checks'] == 0:
            d['status'] = 'undecided'
            d['reason'] = 'zero checks'
        res[short] = d
    return res


def _run_group(cmd, cwd, env, logp, timeout):
    """Run a command in its own process group; on timeout kill the whole group.  Returns the exit code or None."""
    import signal
    with open(logp, 'w') as lf:
        p = subprocess.Popen(cmd, cwd=cwd, env=env, stdout=lf, stderr=subprocess.STDOUT, start_new_session=True)
        try:
            return p.wait(timeout=timeout)
        except subprocess.TimeoutExpired:
            try:
                os.killpg(p.pid, signal.SIGKILL)
            except Exception:
                pass
            p.wait()
            return None
        except BaseException:
            try:
                os.killpg(p.pid, signal.SIGKILL)
            except Exception:
                pass
            raise


def run_harnesses(repo, contracts, work, harnesses, tier):
    out = dict(status='ok', reason='', harnesses={}, summary={}, cmd='', assumptions=[])
    os.makedirs(work, exist_ok=True)
    lockf = open(os.path.join(work, 'kani.lock'), 'w')
    fcntl.flock(lockf, fcntl.LOCK_EX)
    t0 = time.time()
    try:
        try:
            dst, injected = prepare_copy(repo, contracts, work)
        except RuntimeError as e:
            out['status'], out['reason'] = 'undecided', str(e)
            return out
        names = [h['harness'] for h in harnesses]
        timeout = max(h.get('timeout', 600) for h in harnesses) * (1 if tier == 'quick' else 3)
        base = ['cargo', 'kani', '-Z', 'stubbing', '-Z', 'function-contracts', '-Z', 'unstable-options',
                '--harness-timeout', f'{timeout}s', '--output-format', 'terse']
        cmd = base + ['-j', str(min(8, max(1, len(names))))]
        for n in names:
            cmd += ['--harness', n]
        out['cmd'] = 'CARGO_NET_OFFLINE=true ' + ' '.join(cmd) + '   (in a scratch copy of /repo with contracts/kani/*.rs appended)'
        env = dict(os.environ, CARGO_NET_OFFLINE='true')
        logp = os.path.join(work, 'kani-last.log')
        if _run_group(cmd, dst, env, logp, timeout * 2 + 600) is None:
            out['status'], out['reason'] = 'undecided', f'cargo kani exceeded {timeout * 2 + 600}s'
            return out
        log = open(logp, errors='replace').read()
        if 'error: could not compile' in log or (re.search(r'^error(\[E\d+\])?:', log, flags=re.M) and 'Checking harness' not in log):
            m = re.search(r'^error.*$', log, flags=re.M)
            out['status'], out['reason'] = 'undecided', 'build failed: ' + (m.group(0)[:300] if m else log[-300:])
            return out
        hres = parse_log(log, names)
        # counterexamples: re-run each failed harness alone with concrete playback (incompatible with -j)
        for n, h in hres.items():
            if h['status'] != 'failed':
                continue
            cmd2 = base + ['-Z', 'concrete-playback', '--concrete-playback=print', '--harness', n]
            lp2 = os.path.join(work, f'kani-{n}.log')
            if _run_group(cmd2, dst, env, lp2, timeout + 300) is not None:
                h2 = parse_log(open(lp2, errors='replace').read(), [n]).get(n)
                if h2 and h2.get('concrete'):
                    h['concrete'] = h2['concrete']
        out['harnesses'] = hres
        stubs = sorted(set(re.findall(r'-\s*Stub: (\S+)', log)))
        m = re.search(r'Complete - (\d+) successfully verified harnesses, (\d+) failures, (\d+) total', log)
        total_checks = sum(h.get('checks', 0) for h in hres.values())
        solver = sum((h.get('solver_s') or 0) for h in hres.values())
        ver = subprocess.run(['cargo', 'kani', '--version'], stdout=subprocess.PIPE, stderr=subprocess.STDOUT, text=True).stdout.strip()
        out['summary'] = dict(version=ver, harnesses=len(hres), checks=total_checks, solver_time_s=round(solver, 2),
                              wall_s=round(time.time() - t0, 1), injected=[f'{a} -> {b}' for a, b in injected])
        # mechanical assumption scan of the harness sources that were run
        for hf in _harness_files(contracts):
            text = open(hf).read()
            for n in names:
                mm = re.search(r'((?:#\[[^\]]*\]\s*)+)fn\s+' + re.escape(n) + r'\b', text)
                if not mm:
                    continue
                for st in re.findall(r'kani::stub\(([^)]*)\)', mm.group(1)):
                    out['assumptions'].append(f'kani/{n}: stub {st.strip()}')
                # body assumes
                bstart = text.index(mm.group(0)) + len(mm.group(0))
                depth = 0
                i = text.index('{', bstart)
                j = i
                while j < len(text):
                    if text[j] == '{':
                        depth += 1
                    elif text[j] == '}':
                        depth -= 1
                        if depth == 0:
                            break
                    j += 1
                for a in re.findall(r'kani::assume\((.*?)\);', text[i:j], flags=re.S):
                    flat = re.sub(r'\s+', ' ', a.strip())[:160]
                    out['assumptions'].append(f'kani/{n}: assume {flat}')
        return out
    finally:
        fcntl.flock(lockf, fcntl.LOCK_UN)
        lockf.close()
