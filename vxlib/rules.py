"""The fixed rewrite rules (DESIGN §3.1).  Every rule is a token- or text-level substitution on the
extracted item; each firing is counted in `fired` and ends up in the evidence.

Nothing else may change the extracted text: the template processor only *inserts* spec text.
"""
import re

from . import rustscan as rs

DEFAULT_RULES = {'R1', 'R2', 'R5', 'R6', 'R7', 'R13', 'R14', 'R15', 'R16'}


class Refuse(Exception):
    pass


def _count(fired, name, n=1):
    if n:
        fired[name] = fired.get(name, 0) + n


# ---- R2: reader monomorphisation -------------------------------------------------------------
R2_SUBS = [
    (r"<\s*'a\s*,\s*'b\s*:\s*'a\s*,\s*R\s*:\s*Read\s*>", "<'a>"),
    (r"<\s*'a\s*,\s*R\s*:\s*Read\s*>", "<'a>"),
    (r"<\s*R\s*:\s*Read\s*>", ''),
    (r"\bScanner<\s*'(?:a|b|_)\s*,\s*R\s*>", 'Scanner'),
    (r"\bScanner<\s*R\s*>", 'Scanner'),
    (r"\bLexer<\s*Scanner\s*>", 'Lexer'),
    (r"\bParserType<\s*'(?:a|b|_)\s*,\s*R\s*>", 'Parser'),
    (r"\bParserType<\s*R\s*>", 'Parser'),
    (r"\bParser<\s*Lexer\s*>", 'Parser'),
    (r"\bRowParser<\s*'a\s*,\s*'b\s*,\s*R\s*>", "RowParser<'a>"),
    (r"\bRowIterator<\s*'a\s*,\s*'b\s*,\s*R\s*>", "RowIterator<'a>"),
]


def rule_R2(text, fired):
    for rx, rep in R2_SUBS:
        text, n = re.subn(rx, rep, text)
        _count(fired, 'R2', n)
    return text


# ---- R6: format outlining --------------------------------------------------------------------
FORMAT_ARG_BLACKLIST = {'[', 'unwrap', 'expect', '/', '%', 'unwrap_or_else', '?'}


def rule_R6(text, fired):
    toks = rs.tokenize(text)
    out = []
    i = 0
    n = len(toks)
    while i < n:
        t = toks[i]
        if t.kind == 'ident' and t.text == 'format':
            # next code tokens must be '!' '('
            j = i + 1
            while j < n and toks[j].kind == 'ws':
                j += 1
            if j < n and toks[j].text == '!':
                k = j + 1
                while k < n and toks[k].kind == 'ws':
                    k += 1
                if k < n and toks[k].text == '(':
                    depth = 0
                    m = k
                    while m < n:
                        if toks[m].kind == 'punct' and toks[m].text == '(':
                            depth += 1
                        elif toks[m].kind == 'punct' and toks[m].text == ')':
                            depth -= 1
                            if depth == 0:
                                break
                        m += 1
                    args = [x for x in toks[k + 1:m] if x.kind not in ('ws', 'comment', 'doc')]
                    for ai, x in enumerate(args):
                        if x.kind == 'ident' and (ai + 1 >= len(args) or args[ai + 1].text != '('):
                            continue
                        if x.kind in ('punct', 'ident') and x.text in FORMAT_ARG_BLACKLIST:
                            raise Refuse(f'R6 refuses format! argument containing {x.text!r}: ' + ''.join(y.text for y in toks[i:m + 1]))
                    # preceded by '&' ?
                    p = len(out) - 1
                    while p >= 0 and out[p].strip() == '':
                        p -= 1
                    if p >= 0 and out[p] == '&':
                        del out[p:]
                        out.append('fmt_str()')
                    else:
                        out.append('fmt_string()')
                    _count(fired, 'R6')
                    i = m + 1
                    continue
        out.append(t.text)
        i += 1
    return ''.join(out)


# ---- R6b: write_fmt outlining -------------------------------------------------------------------
def fmt_tag(lit):
    import hashlib
    body = lit
    name = re.sub(r'[^A-Za-z0-9]+', '_', body.strip('r#"')).strip('_')[:18]
    return (name + '_' if name else '') + hashlib.md5(lit.encode()).hexdigest()[:6]


def rule_R6b(text, fired):
    """`W.write_fmt(format_args!(LIT, a, b))` -> `wfmt_<tag>(W, a, b)`; the helper (declared in the unit template with
    its assumed contract) stands for core::fmt rendering LIT with those arguments into the writer."""
    toks = rs.tokenize(text)
    out = []
    i = 0
    n = len(toks)

    def nxt(k):
        k += 1
        while k < n and toks[k].kind in ('ws', 'comment', 'doc'):
            k += 1
        return k
    while i < n:
        t = toks[i]
        if t.kind == 'ident' and t.text == 'write_fmt':
            j = nxt(i)
            if j < n and toks[j].text == '(':
                k = nxt(j)
                if k < n and toks[k].text == 'format_args' and toks[nxt(k)].text == '!':
                    o = nxt(nxt(k))
                    if toks[o].text != '(':
                        raise Refuse('R6b: unexpected format_args! shape')
                    depth = 0
                    m = o
                    while m < n:
                        if toks[m].kind == 'punct' and toks[m].text == '(':
                            depth += 1
                        elif toks[m].kind == 'punct' and toks[m].text == ')':
                            depth -= 1
                            if depth == 0:
                                break
                        m += 1
                    inner = toks[o + 1:m]
                    lit_i = 0
                    while inner[lit_i].kind in ('ws', 'comment', 'doc'):
                        lit_i += 1
                    if inner[lit_i].kind != 'str':
                        raise Refuse('R6b: format string is not a literal')
                    lit = inner[lit_i].text
                    # split the arguments at top-level commas; format_args! borrows each of them
                    parts, cur_, depth_ = [], [], 0
                    for x in inner[lit_i + 1:]:
                        if x.kind == 'punct' and x.text in '([{':
                            depth_ += 1
                        elif x.kind == 'punct' and x.text in ')]}':
                            depth_ -= 1
                        if x.kind == 'punct' and x.text == ',' and depth_ == 0:
                            parts.append(''.join(cur_).strip())
                            cur_ = []
                        else:
                            cur_.append(x.text)
                    parts.append(''.join(cur_).strip())
                    parts = [a for a in parts if a]
                    parts = [re.sub(r'^[A-Za-z_][A-Za-z0-9_]*\s*=\s*(?!=)', '', a) for a in parts]   # name = expr
                    rest_args = ', '.join(f'&({a})' for a in parts)
                    close = nxt(m)          # the ')' of write_fmt(
                    if toks[close].text != ')':
                        raise Refuse('R6b: write_fmt has more than one argument')
                    # receiver: tokens back to the previous '.', which must follow a plain identifier
                    p = len(out) - 1
                    while p >= 0 and out[p].strip() == '':
                        p -= 1
                    if p < 1 or out[p] != '.':
                        raise Refuse('R6b: write_fmt without receiver')
                    q = p - 1
                    while q >= 0 and out[q].strip() == '':
                        q -= 1
                    recv = out[q]
                    if not re.match(r'^[A-Za-z_][A-Za-z0-9_]*$', recv):
                        raise Refuse('R6b: receiver of write_fmt is not an identifier: ' + recv)
                    del out[q:]
                    out.append(f'wfmt_{fmt_tag(lit + "|" + "|".join(parts))}({recv}' + (', ' + rest_args if rest_args else '') + ')')
                    _count(fired, 'R6b')
                    i = close + 1
                    continue
        out.append(t.text)
        i += 1
    return ''.join(out)


# ---- R7: lossy strings -----------------------------------------------------------------------
def rule_R7(text, fired):
    text, n = re.subn(r'String::from_utf8_lossy\(\s*&\s*([A-Za-z_][A-Za-z0-9_\.]*)\s*\)\s*\.to_string\(\)', r'lossy_string(&\1)', text)
    _count(fired, 'R7', n)
    text, n = re.subn(r'&\s*String::from_utf8_lossy\(\s*&\s*([A-Za-z_][A-Za-z0-9_\.]*)\s*\)', r'&lossy_string(&\1)', text)
    _count(fired, 'R7', n)
    text, n = re.subn(r'String::from_utf8_lossy\(\s*&\s*\[([^\]]*)\]\s*\)\s*\.to_string\(\)', r'lossy_string_arr(&[\1])', text)
    _count(fired, 'R7', n)
    text, n = re.subn(r'&\s*String::from_utf8_lossy\(\s*([A-Za-z_][A-Za-z0-9_]*)\s*\)', r'&lossy_string_slice(\1)', text)
    _count(fired, 'R7', n)
    return text


# ---- R5 (loop patterns): `for _ in` -> `for _iN in` so that an invariant can name the counter
def rule_R5b(text, fired):
    k = [0]

    def rep(m):
        k[0] += 1
        return f'for _i{k[0]} in'
    text, n = re.subn(r'\bfor\s+_\s+in\b', rep, text)
    _count(fired, 'R5', n)
    return text


# ---- R9: writer monomorphisation -------------------------------------------------------------
def rule_R9(text, fired):
    text, n = re.subn(r'<\s*W\s*:\s*(?:std::io::)?Write\s*>', '', text)
    _count(fired, 'R9', n)
    text, n = re.subn(r'&mut\s+W\b', '&mut Vec<u8>', text)
    _count(fired, 'R9', n)
    return text


# ---- R10: C pointers (C17 only) ------------------------------------------------------------------
def rule_R10(text, fired):
    """`unsafe extern "C" fn f(p: *mut Value, q: *const Value)`: a handle the body mutates through `p.as_mut()` becomes
    `&mut Value` (and `p.as_mut()` -> `Some(p)`); a handle only read through `q.as_ref()` becomes `Option<&Value>` (and
    `q.as_ref()` -> `q`).  This turns the ownership protocol of the C API into a type: every non-null handle is live and
    unaliased; a mutated handle is non-null."""
    m = re.search(r'\bfn\s+\w+\s*\((.*?)\)\s*(->|\{)', text, flags=re.S)
    if not m:
        return text
    params = m.group(1)
    new_params = params
    for pm in re.finditer(r'(\w+)\s*:\s*\*\s*(mut|const)\s+(\w+)', params):
        name, _kind, ty = pm.group(1), pm.group(2), pm.group(3)
        body = text[m.end():]
        if ty == 'c_char' and re.search(r'\bCStr::from_ptr\(\s*' + name + r'\s*\)\.to_str\(\)', body):
            # a NUL-terminated C string handed over as a read-only pointer: `Option<&CText>` (null = None); reading it through
            # CStr::from_ptr(p).to_str() becomes cstr_to_str(p), whose precondition is that p is not null
            new_params = new_params.replace(pm.group(0), f'{name}: Option<&CText>')
            text = re.sub(r'\bCStr::from_ptr\(\s*' + name + r'\s*\)\.to_str\(\)', f'cstr_to_str({name})', text)
            text = re.sub(r'\b' + name + r'\s*\.\s*is_null\(\)', f'{name}.is_none()', text)
            _count(fired, 'R10')
            continue
        if re.search(r'\b' + name + r'\s*\.\s*as_mut\(\)', body):
            new_params = new_params.replace(pm.group(0), f'{name}: &mut {ty}')
            text = re.sub(r'\b' + name + r'\s*\.\s*as_mut\(\)', f'Some({name})', text)
            # a `&mut` handle is non-null by construction
            text = re.sub(r'\b' + name + r'\s*\.\s*is_null\(\)', 'false', text)
        elif re.search(r'\b' + name + r'\s*\.\s*as_ref\(\)', body) or re.search(r'\bsafe_bool_call!\(\s*' + name + r'\s*,', body):
            # (safe_bool_call! is the crate's macro around `$self.as_ref()`; the unit extracts it with the same substitution)
            new_params = new_params.replace(pm.group(0), f'{name}: Option<&{ty}>')
            text = re.sub(r'\b' + name + r'\s*\.\s*as_ref\(\)', name, text)
            text = re.sub(r'\b' + name + r'\s*\.\s*is_null\(\)', f'{name}.is_none()', text)
        else:
            raise Refuse(f'R10: pointer parameter {name} is used in a way the rule does not cover')
        _count(fired, 'R10')
    text = text.replace(params, new_params, 1)
    # a returned C string: `-> *const c_char` becomes `-> Option<CTextOut>` (null = None); CString::new(bytes) is the model
    # constructor cstring_new(bytes), `.into_raw()` hands the string over (Some), std::ptr::null() is None
    if re.search(r'->\s*\*\s*const\s+c_char\b', text) and 'CString::new(' in text:
        text, n = re.subn(r'->\s*\*\s*const\s+c_char\b', '-> Option<CTextOut>', text)
        _count(fired, 'R10', n)
        text, n = re.subn(r'\bCString::new\(', 'cstring_new(', text)
        _count(fired, 'R10', n)
        text, n = re.subn(r'\b(\w+)\.into_raw\(\)', r'Some(\1)', text)
        _count(fired, 'R10', n)
        text, n = re.subn(r'\bstd::ptr::null\(\)', 'None', text)
        _count(fired, 'R10', n)
    text, n = re.subn(r'\b(?:unsafe\s+)?extern\s+"C"\s+fn\b', 'fn', text)
    _count(fired, 'R10', n)
    return text


# ---- R13: string slicing ---------------------------------------------------------------------
def rule_R13(text, fired):
    # E[a..b] / E[a..] on a str/String place; E is a field path or identifier
    def rep2(m):
        return f'str_slice(&{m.group(1)}, {m.group(2)}, {m.group(3)})'
    text, n = re.subn(r'((?:self\.)?[A-Za-z_#][A-Za-z0-9_#\.]*)\[\s*([^\[\]\.]+?)\s*\.\.\s*([^\[\]\.]+?)\s*\]', rep2, text)
    _count(fired, 'R13', n)

    def rep0(m):
        return f'str_slice(&{m.group(1)}, 0, {m.group(2)})'
    text, n = re.subn(r'((?:self\.)?[A-Za-z_#][A-Za-z0-9_#\.]*)\[\s*\.\.\s*([^\[\]]+?)\s*\]', rep0, text)
    _count(fired, 'R13', n)

    def rep1(m):
        return f'str_slice_from(&{m.group(1)}, {m.group(2)})'
    text, n = re.subn(r'((?:self\.)?[A-Za-z_#][A-Za-z0-9_#\.]*)\[\s*([^\[\]\.]+?)\s*\.\.\s*\]', rep1, text)
    _count(fired, 'R13', n)
    return text


# ---- R14: numeric parse outlining -------------------------------------------------------------
def rule_R14(text, fired):
    text, n = re.subn(r'\b([A-Za-z_][A-Za-z0-9_]*)\s*\.parse::<f64>\(\)', r'parse_f64(&\1)', text)
    _count(fired, 'R14', n)
    return text


# ---- R18: byte-string literals as array literals ------------------------------------------------
def _bytes_of_literal(tok):
    if tok.startswith('br'):
        m = re.match(r'br(#*)"(.*)"\1$', tok, re.S)
        return list(m.group(2).encode('utf-8'))
    body = tok[2:-1]
    out = []
    i = 0
    esc = {'n': 10, 't': 9, 'r': 13, '\\': 92, '"': 34, "'": 39, '0': 0}
    while i < len(body):
        c = body[i]
        if c == '\\':
            n = body[i + 1]
            if n == 'x':
                out.append(int(body[i + 2:i + 4], 16))
                i += 4
            elif n in esc:
                out.append(esc[n])
                i += 2
            else:
                raise Refuse('R18: unknown escape in byte string ' + tok)
        else:
            out.extend(c.encode('utf-8'))
            i += 1
    return out


def rule_R18(text, fired):
    """`b"..."` / `br"..."` -> `&[b0, b1, ..]` (Verus knows the contents of array literals, not of byte strings)"""
    toks = rs.tokenize(text)
    out = []
    for t in toks:
        if t.kind == 'str' and (t.text.startswith('b"') or t.text.startswith('br')):
            bs = _bytes_of_literal(t.text)
            out.append('&[' + ', '.join(f'{b}u8' for b in bs) + ']')
            _count(fired, 'R18')
        else:
            out.append(t.text)
    return ''.join(out)


# ---- R16: string-literal conversion ------------------------------------------------------------
def rule_R16(text, fired):
    toks = rs.tokenize(text)
    out = []
    i = 0
    n = len(toks)
    while i < n:
        t = toks[i]
        if t.kind == 'str' and not t.text.startswith('b') and i + 4 < n and toks[i + 1].text == '.' and toks[i + 2].text == 'into' \
                and toks[i + 3].text == '(' and toks[i + 4].text == ')':
            out.append(f'str_lit_into({t.text})')
            _count(fired, 'R16')
            i += 5
            continue
        out.append(t.text)
        i += 1
    return ''.join(out)


# ---- R15: float constants --------------------------------------------------------------------
def rule_R15(text, fired):
    for const, fn in (('NEG_INFINITY', 'f64_neg_infinity()'), ('INFINITY', 'f64_infinity()'), ('NAN', 'f64_nan()')):
        text, n = re.subn(r'\bf64::' + const + r'\b', fn, text)
        _count(fired, 'R15', n)
    return text


# ---- R19: enumerate loops ------------------------------------------------------------------------
R19_RX = re.compile(r'\bfor\s*\(\s*(\w+)\s*,\s*(\w+|\([^()]*\))\s*\)\s*in\s+([\w\.]+?(?:\(\))?)\.iter\(\)\.enumerate\(\)\s*\{')

# `for PAT in &E {` : same rewrite with the index named i_PAT
R19C_RX = re.compile(r'\bfor\s+(\([^()]*\))\s+in\s+([\w\.]+?)\.iter\(\)\s*\{')
R19B_RX = re.compile(r'\bfor\s+(\w+)\s+in\s+&([\w\.]+)\s*\{')


def rule_R19(text, fired):
    """`for (I, PAT) in E.iter().enumerate() { B }` ->
    `{ let mut I: usize = 0; while I < E.len() { let PAT = ELEM; B I += 1; } }` where ELEM is `&E[I]` for an identifier
    pattern and `E.entry_at(I)` for a tuple pattern (map entries in iteration order); `for PAT in &E { B }` likewise with the
    index named i_PAT;
    `for (K, V) in E.iter() { B }` (map entries) with the index named i_entry.  Refuses a body with `continue`
    (the increment would be skipped).  Trusted: slice::Iter + Enumerate yield (i, &E[i]) for i in 0..E.len()."""
    while True:
        m = R19_RX.search(text) or R19B_RX.search(text) or R19C_RX.search(text)
        if not m:
            return text
        ct = rs.code_toks(rs.tokenize(text[m.end() - 1:]))
        close = m.end() - 1 + ct[rs.match_close(ct, 0)].start
        body = text[m.end():close]
        if re.search(r'\bcontinue\b', body):
            raise Refuse('R19: continue inside an enumerate loop')
        if m.re is R19_RX:
            i, pat, e = m.group(1), m.group(2), m.group(3)
        elif m.re is R19C_RX:
            pat, e = m.group(1), m.group(2)
            i = 'i_entry'
        else:
            pat, e = m.group(1), m.group(2)
            i = 'i_' + pat
        elem = f'{e}.entry_at({i})' if pat.startswith('(') else f'&{e}[{i}]'
        rep = (f'{{ let mut {i}: usize = 0; while {i} < {e}.len() {{ let {pat} = {elem};{body} {i} += 1; }} }}')
        text = text[:m.start()] + rep + text[close + 1:]
        _count(fired, 'R19')


# ---- R20: serde serializer monomorphisation -------------------------------------------------------
def rule_R20(text, fired):
    """`fn serialize<S: Serializer>(&self, serializer: S) -> Result<S::Ok, S::Error>` -> the model serializer of the unit:
    `S` -> `Ser`, `S::Ok` -> `Out`, `S::Error` -> `SerErr`.  Trusted: the unit's `Ser`/`MapSer`/`SeqSer` state what serde's data
    model does with each call (append an entry / element, finish the map / sequence)."""
    for rx, rep in ((r'<\s*S\s*:\s*Serializer\s*>', ''), (r'\bS::Ok\b', 'Out'), (r'\bS::Error\b', 'SerErr'),
                    (r'\bserializer\s*:\s*S\b', 'serializer: Ser')):
        text, n = re.subn(rx, rep, text)
        _count(fired, 'R20', n)
    return text


# ---- R21: while let ------------------------------------------------------------------------------
R21_RX = re.compile(r'\bwhile\s+let\s+(.+?)\s*=\s*([^={}]+?)\s*\{')


def rule_R21(text, fired):
    """`while let PAT = EXPR { B }` -> `loop { match EXPR { PAT => { B } _ => { break; } } }` (the definition of `while let`)."""
    while True:
        m = R21_RX.search(text)
        if not m:
            return text
        ct = rs.code_toks(rs.tokenize(text[m.end() - 1:]))
        close = m.end() - 1 + ct[rs.match_close(ct, 0)].start
        body = text[m.end():close]
        rep = f'loop {{ match {m.group(2)} {{ {m.group(1)} => {{{body}}} _ => {{ break; }} }} }}'
        text = text[:m.start()] + rep + text[close + 1:]
        _count(fired, 'R21')


# ---- R22: guard-continue --------------------------------------------------------------------------
R22_RX = re.compile(r'\bif\s+([^{};]+?)\s*\{\s*continue\s*;\s*\}')


def rule_R22(text, fired):
    """`if COND { continue; } REST` (REST = the remainder of the enclosing loop body) -> `if !(COND) { REST }`.
    Refuses when REST itself contains `continue` or when an `else` follows."""
    while True:
        m = R22_RX.search(text)
        if not m:
            return text
        # end of the enclosing block: first unmatched '}' after the match
        ct = rs.code_toks(rs.tokenize(text[m.end():]))
        depth = 0
        close = None
        for t in ct:
            if t.kind == 'punct' and t.text in rs.OPEN:
                depth += 1
            elif t.kind == 'punct' and t.text in rs.CLOSE:
                if depth == 0:
                    close = m.end() + t.start
                    break
                depth -= 1
        if close is None:
            raise Refuse('R22: no enclosing block')
        rest = text[m.end():close]
        if re.match(r'\s*else\b', rest) or re.search(r'\bcontinue\b', rest):
            raise Refuse('R22: else branch or second continue')
        text = text[:m.start()] + f'if !({m.group(1)}) {{{rest}}}\n' + text[close:]
        _count(fired, 'R22')


# ---- R23: Iterator::any / all over a slice ---------------------------------------------------------
R23_RX = re.compile(r'([\w\.]+)\.iter\(\)\.(any|all|find)\(\|&?(\w+)\|\s*')


def rule_R23(text, fired):
    """`E.iter().any(|x| BODY)` -> `{ let mut r_any = false; let mut i_x = 0; while i_x < E.len() { let x = &E[i_x]; if BODY { r_any = true;
    break; } i_x += 1; } r_any }`, `all` with `if !(BODY) { r_all = false; break; }`, `find(|&x| BODY)` with `r_find = Some(x)`.  Trusted: Iterator::any / all over a slice
    iterator evaluate the closure on the elements left to right and stop at the first hit."""
    while True:
        m = R23_RX.search(text)
        if not m:
            return text
        i = m.end()
        depth = 1
        while depth > 0:
            c = text[i]
            if c in '([{':
                depth += 1
            elif c in ')]}':
                depth -= 1
            i += 1
        body = text[m.end():i - 1].strip()
        e, kind, x = m.group(1), m.group(2), m.group(3)
        idx = 'i_' + x
        if kind == 'any':
            rep = (f'{{ let mut r_any = false; let mut {idx}: usize = 0; while {idx} < {e}.len() {{ let {x} = &{e}[{idx}]; '
                   f'if {body} {{ r_any = true; break; }} {idx} += 1; }} r_any }}')
        elif kind == 'find':
            rep = (f'{{ let mut r_find = None; let mut {idx}: usize = 0; while {idx} < {e}.len() {{ let {x} = &{e}[{idx}]; '
                   f'if {body} {{ r_find = Some({x}); break; }} {idx} += 1; }} r_find }}')
        else:
            rep = (f'{{ let mut r_all = true; let mut {idx}: usize = 0; while {idx} < {e}.len() {{ let {x} = &{e}[{idx}]; '
                   f'if !({body}) {{ r_all = false; break; }} {idx} += 1; }} r_all }}')
        text = text[:m.start()] + rep + text[i:]
        _count(fired, 'R23')


# ---- R24: write!(W, ...) is its expansion ------------------------------------------------------------
R24_RX = re.compile(r'\bwrite!\(\s*([A-Za-z_][A-Za-z0-9_]*)\s*,')


def rule_R24(text, fired):
    """`write!(W, LIT, args..)` -> `W.write_fmt(format_args!(LIT, args..))` (the macro's definition); R6b then names the rendering."""
    while True:
        m = R24_RX.search(text)
        if not m:
            return text
        i = m.end()
        depth = 1
        in_str = False
        while depth > 0:
            c = text[i]
            if in_str:
                if c == '\\':
                    i += 1
                elif c == '"':
                    in_str = False
            elif c == '"':
                in_str = True
            elif c in '([{':
                depth += 1
            elif c in ')]}':
                depth -= 1
            i += 1
        args = text[m.end():i - 1].strip()
        text = text[:m.start()] + f'{m.group(1)}.write_fmt(format_args!({args}))' + text[i:]
        _count(fired, 'R24')


# ---- R25: enumerate().try_for_each over a slice --------------------------------------------------------
R25_RX = re.compile(r'([A-Za-z_][\w\.]*?)\s*\.iter\(\)\s*\.enumerate\(\)\s*\.try_for_each\(\|\((\w+),\s*(\w+)\)\|\s*->\s*Result\s*\{')


def rule_R25(text, fired):
    """`E.iter().enumerate().try_for_each(|(i, x)| -> Result { BODY })` -> `{ let mut i: usize = 0; while i < E.len() { let x = &E[i];
    let step: Result = { BODY }; step?; i += 1; } Ok(()) }`.  Trusted: try_for_each over an enumerated slice iterator runs the closure on
    the elements left to right with their indices and returns the first Err, or Ok(()) at the end.  Only applied where the call is the
    tail expression of a function returning that Result, so a `?` inside BODY leaves the function with the same value either way."""
    while True:
        m = R25_RX.search(text)
        if not m:
            return text
        i = m.end()
        depth = 1
        in_str = False
        while depth > 0:
            c = text[i]
            if in_str:
                if c == '\\':
                    i += 1
                elif c == '"':
                    in_str = False
            elif c == '"':
                in_str = True
            elif c in '([{':
                depth += 1
            elif c in ')]}':
                depth -= 1
            i += 1
        body = text[m.end():i - 1]
        j = i
        while text[j] in ' \n\t':
            j += 1
        if text[j] != ')':
            raise Refuse('R25: closure is not the only argument of try_for_each')
        rest = text[j + 1:].strip()
        if rest not in ('}', ''):
            raise Refuse('R25: try_for_each is not the tail expression of the function')
        e, idx, x = m.group(1), m.group(2), m.group(3)
        rep = (f'{{ let mut {idx}: usize = 0;\n        while {idx} < {e}.len() {{\n            let {x} = &{e}[{idx}];\n'
               f'            let step: Result = {{{body}}};\n            step?;\n            {idx} += 1;\n        }}\n        Ok(()) }}')
        text = text[:m.start()] + rep + text[j + 1:]
        _count(fired, 'R25')


# ---- R26: a datatype constructor used as a function value ---------------------------------------------
R26_RX = re.compile(r'\.map\(\s*((?:[A-Z][A-Za-z0-9_]*::)+[A-Z][A-Za-z0-9_]*)\s*\)')


def rule_R26(text, fired):
    """`.map(Type::Variant)` -> `.map(|x_| Type::Variant(x_))` (eta-expansion; this Verus rejects a constructor as a function value)."""
    def rep(m):
        _count(fired, 'R26')
        return f'.map(|x_| {m.group(1)}(x_))'
    return R26_RX.sub(rep, text)


# ---- R27: a local closure without parameters, called by name ----------------------------------------------
R27_RX = re.compile(r'let\s+(?:mut\s+)?([a-z_][a-z0-9_]*)\s*=\s*\|\|\s*([^;{}]+);')


def rule_R27(text, fired):
    """`let [mut] f = || EXPR; ... f(); ...` -> every `f()` replaced by `(EXPR)` and the `let` dropped (beta-reduction of a local
    closure that takes no arguments; this Verus has no closures that mutate what they capture).  Refuses when `f` occurs other than as `f()`."""
    while True:
        m = R27_RX.search(text)
        if not m:
            return text
        name, expr = m.group(1), m.group(2).strip()
        rest = text[m.end():]
        uses = len(re.findall(r'\b' + name + r'\b', rest))
        calls = len(re.findall(r'\b' + name + r'\(\)', rest))
        if uses != calls or calls == 0:
            raise Refuse('R27: local closure used other than by calling it')
        rest = re.sub(r'\b' + name + r'\(\)', '(' + expr + ')', rest)
        text = text[:m.start()] + rest
        _count(fired, 'R27')


RULES = {
    'R27': rule_R27,
    'R26': rule_R26,
    'R25': rule_R25,
    'R24': rule_R24,
    'R23': rule_R23,
    'R22': rule_R22,
    'R21': rule_R21,
    'R20': rule_R20,
    'R19': rule_R19,
    'R18': rule_R18,
    'R10': rule_R10,
    'R6b': rule_R6b,
    'R16': rule_R16,
    'R15': rule_R15,
    'R14': rule_R14,
    'R5': rule_R5b,
    'R2': rule_R2,
    'R6': rule_R6,
    'R7': rule_R7,
    'R9': rule_R9,
    'R13': rule_R13,
}
ORDER = ['R27', 'R26', 'R25', 'R24', 'R23', 'R22', 'R21', 'R19', 'R20', 'R10', 'R2', 'R9', 'R6b', 'R6', 'R7', 'R13', 'R14', 'R15', 'R16', 'R18', 'R5']


def apply_rules(text, active, fired, extra_subs=()):
    for name in ORDER:
        if name in active:
            text = RULES[name](text, fired)
    for name, rx, rep in extra_subs:
        text, n = re.subn(rx, rep, text)
        _count(fired, name, n)
    return text


# ---- R1 / R5 on signatures -------------------------------------------------------------------
def fix_fn_prefix(pre, fired):
    """`pre` is what stands before `fn` (visibility, unsafe, extern).  R1: force `pub`."""
    p = re.sub(r'\bpub\s*\([^)]*\)', '', pre)
    p = re.sub(r'\bpub\b', '', p)
    if p.strip() != pre.replace('pub', '').strip() or 'pub' not in pre:
        _count(fired, 'R1')
    rest = p.strip()
    return 'pub ' + (rest + ' ' if rest else '')


def fix_params(params, fired):
    """R5: `_` in parameter position -> `_pN`."""
    toks = rs.tokenize(params)
    out = []
    k = 0
    depth = 0
    prev_code = None
    for i, t in enumerate(toks):
        if t.kind == 'punct' and t.text in '([{<':
            depth += 1
        elif t.kind == 'punct' and t.text in ')]}>':
            depth -= 1
        if t.kind == 'ident' and t.text == '_' and depth == 1 and prev_code in ('(', ','):
            k += 1
            out.append(f'_p{k}')
            _count(fired, 'R5')
        else:
            out.append(t.text)
        if t.kind not in ('ws', 'comment', 'doc'):
            prev_code = t.text
    return ''.join(out)


def fix_type_decl(text, fired, opts):
    """R1 on fields; attributes (derive etc.) are dropped unless `keep:` names a derive list."""
    toks = rs.tokenize(text)
    ct = rs.code_toks(toks)
    # drop leading attributes
    i = 0
    while ct[i].text == '#':
        j = rs.match_close(ct, i + 1)
        i = j + 1
    start = ct[i].start
    if start > 0:
        _count(fired, 'R11' if 'derive' in text[:start] else 'attrs')
    body = text[start:]
    body = re.sub(r'\bpub\s*\([^)]*\)\s*', 'pub ', body)
    is_struct = re.match(r'\s*(pub\s+)?struct\b', body) is not None
    if not re.match(r'\s*pub\b', body):
        body = 'pub ' + body.lstrip()
        _count(fired, 'R1')
    if is_struct and '{' in body:
        # make every field pub: fields are at brace depth 1, start after '{' or ','
        toks = rs.tokenize(body)
        out = []
        depth = 0
        expect_field = False
        in_body = False
        for t in toks:
            if t.kind == 'punct' and t.text in '{([<':
                depth += 1
                out.append(t.text)
                if t.text == '{' and depth == 1:
                    expect_field = True
                    in_body = True
                continue
            if t.kind == 'punct' and t.text in '})]>':
                depth -= 1
                out.append(t.text)
                continue
            if t.kind == 'punct' and t.text == ',' and depth == 1 and in_body:
                out.append(t.text)
                expect_field = True
                continue
            if expect_field and t.kind == 'ident':
                if t.text != 'pub':
                    out.append('pub ')
                    _count(fired, 'R1')
                expect_field = False
            elif expect_field and t.kind == 'punct' and t.text == '#':
                pass
            out.append(t.text)
        body = ''.join(out)
    keep = opts.get('keep')
    if keep:
        body = f'#[derive({keep.strip()})]\n' + body
    return body
