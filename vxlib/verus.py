"""Run Verus on a generated unit and classify every function / lemma."""
import json
import os
import re
import subprocess
import time

from . import extract
from . import rustscan as rs

FAIL_KINDS = [
    ('postcondition not satisfied', 'ensures'),
    ('precondition not satisfied', 'requires'),
    ('invariant not satisfied before loop', 'invariant-entry'),
    ('invariant not satisfied at end of loop body', 'invariant-step'),
    ('decreases not satisfied at end of loop', 'loop-decreases'),
    ('decreases not satisfied', 'decreases'),
    ('could not prove termination', 'decreases'),
    ('possible arithmetic underflow/overflow', 'overflow'),
    ('possible division by zero', 'div0'),
    ('assertion failed', 'assert'),
    ('expression simplifies to false', 'assert-by-compute'),
    ('assert_by_compute', 'assert-by-compute'),
    ('recommendation not met', 'recommends'),
    ('loop invariant not satisfied', 'invariant'),
    ('unreachable', 'unreachable'),
    ('index out of bounds', 'index'),
]
UNDECIDED_MARKERS = ['rlimit', 'resource limit', 'timed out', 'timeout']


class UnitResult:
    def __init__(self):
        self.unit = None
        self.gen_path = None
        self.status = 'ok'          # ok | undecided
        self.reason = ''
        self.functions = {}         # ident -> dict(kind, mode, ok, failures[], src_file, src_lines, sha256, rules, smt_ms)
        self.verified = 0
        self.errors = 0
        self.smt_ms = 0
        self.wall_s = 0.0
        self.verus_version = ''
        self.cmd = ''
        self.assumption_scan = []
        self.raw_errors = []


def _fn_spans(gen_text):
    """[(start_line, end_line, ident)] for every fn in the generated file (ident = Type::name or name)."""
    spans = []
    try:
        items = rs.items(gen_text)
    except rs.ScanError:
        return spans
    for it in items:
        if it.kind != 'fn':
            continue
        impls = [h for (k, h) in it.ctx if k == 'impl']
        owner = ''
        if impls:
            h = rs.norm(impls[-1])
            m = re.search(r'\bfor\s+([A-Za-z_][A-Za-z0-9_]*)', h)
            if m:
                tr = re.search(r'impl(?:<[^>]*>)?\s+([A-Za-z_][A-Za-z0-9_:<>& ,\']*?)\s+for\b', h)
                owner = m.group(1) + '::<' + (tr.group(1).strip() if tr else 'trait') + '>::'
            else:
                m = re.search(r'impl(?:<[^>]*>)?\s+([A-Za-z_][A-Za-z0-9_]*)', h)
                owner = (m.group(1) if m else '?') + '::'
        l0 = gen_text.count('\n', 0, it.attrs_start) + 1
        l1 = gen_text.count('\n', 0, it.end) + 1
        attrs = gen_text[it.attrs_start:it.start]
        line_start = gen_text.rfind('\n', 0, it.start) + 1
        same_line = gen_text[line_start:it.start]
        ext = 'external_body' in attrs or 'external_body' in same_line
        spans.append((l0, l1, owner + it.name, it.header + (' #external_body' if ext else '')))
    return spans


ASSUME_PATTERNS = [
    (r'\bassume\s*\(', 'assume()'),
    (r'\badmit\s*\(', 'admit()'),
    (r'#\[verifier::external_body\]', 'external_body'),
    (r'\bassume_specification\b', 'assume_specification'),
    (r'\buninterp\s+spec\s+fn\b', 'uninterp spec fn'),
    (r'#\[verifier::external_type_specification\]', 'external_type_specification'),
    (r'#\[verifier::external\]', 'external'),
    (r'exec_allows_no_decreases_clause', 'exec_allows_no_decreases_clause'),
    (r'#\[verifier::rlimit', 'rlimit attribute'),
    (r'\baxiom\s+fn\b', 'axiom'),
]


def scan_assumptions(gen_text):
    """Mechanical scan of the generated file: every construct that is an assumption, the item it is attached to and the
    `[trusted: ...]` / `[kani: ...]` tag of the comment block directly above it (or 'untagged')."""
    out = []
    lines = gen_text.split('\n')
    for i, ln in enumerate(lines):
        st = ln.strip()
        if st.startswith('//'):
            continue
        for rx, name in ASSUME_PATTERNS:
            m = re.search(rx, ln)
            if not m:
                continue
            # the item: rest of this line after the attribute, else the next non-attribute, non-empty line
            rest_ = re.sub(r'#\[[^\]]*\]', '', ln).strip()
            j = i
            target = rest_
            while not target and j + 1 < len(lines):
                j += 1
                target = re.sub(r'#\[[^\]]*\]', '', lines[j]).strip()
            # tag: walk up over attributes / blank lines to the nearest comment block
            k = i - 1
            tag = 'untagged'
            hops = 0
            while k >= 0 and hops < 12:
                sk = lines[k].strip()
                mt = re.search(r'\[(trusted|kani):\s*([^\]]*)\]?', sk)
                if sk.startswith('//') and mt:
                    tag = f'{mt.group(1)}: {mt.group(2).strip()}'
                    break
                if sk.startswith('//') or sk.startswith('#[') or sk == '' or 'external_body' in sk or 'assume_specification' in sk \
                        or 'uninterp' in sk or sk.startswith('impl ') or sk.startswith('pub fn') or sk.startswith('{') or sk.startswith('ensures') or sk.startswith('requires'):
                    k -= 1
                    hops += 1
                    continue
                break
            if tag == 'untagged':
                # no tag directly above: name the nearest tagged comment further up (items are declared in tagged groups)
                for k2 in range(i - 1, max(-1, i - 400), -1):
                    mt = re.search(r'//.*\[(trusted|kani):\s*([^\]]*)\]?', lines[k2])
                    if mt:
                        tag = f'group {mt.group(1)}: {mt.group(2).strip()}'
                        break
            out.append({'construct': name, 'line': i + 1, 'on': target[:150], 'tag': tag})
    return out


def run_unit(repo, contracts_dir, unit, workdir, rlimit=30, threads=8, timeout=900):
    res = UnitResult()
    res.unit = unit
    t0 = time.time()
    b = extract.Builder(repo, contracts_dir)
    tpl = os.path.join(contracts_dir, 'units', unit + '.vt')
    try:
        text = b.build(tpl)
    except extract.Undecided as e:
        res.status, res.reason = 'undecided', f'extraction: {e}'
        return res
    except Exception as e:  # rules.Refuse, ScanError
        res.status, res.reason = 'undecided', f'extraction: {type(e).__name__}: {e}'
        return res
    os.makedirs(workdir, exist_ok=True)
    gen = os.path.join(workdir, unit + '.rs')
    with open(gen, 'w') as f:
        f.write(text)
    res.gen_path = gen
    res.assumption_scan = scan_assumptions(text)
    spans = _fn_spans(text)
    emitted_by_line = {}
    for e in b.emitted:
        if e.kind == 'fn':
            emitted_by_line[e.gen_lines] = e
    # register functions
    for (l0, l1, ident, header) in spans:
        em = None
        for (g0, g1), e in emitted_by_line.items():
            if g0 <= l0 + 2 and l1 <= g1 + 1 and l0 >= g0 - 1:
                em = e
                break
        is_spec = re.search(r'\bspec\s+fn\b', header) is not None
        kind = 'spec' if is_spec else ('proof' if re.search(r'\bproof\s+fn\b', header) else 'exec')
        d = dict(kind=kind, gen_lines=(l0, l1), ok=None, failures=[], extracted=em is not None,
                 mode=(em.mode if em else ('trusted' if header.endswith('#external_body') else 'template')), src_file=(em.src_file if em else None),
                 src_lines=(em.src_lines if em else None), sha256=(em.sha256 if em else None),
                 rules=(em.rules if em else {}), smt_ms=0)
        if ident in res.functions:
            ident = ident + f'@{l0}'
        res.functions[ident] = d
    cmd = ['verus', gen, '--output-json', '--time-expanded', '--error-format=json', '--rlimit', str(rlimit),
           '--num-threads', str(threads), '--multiple-errors', '5']
    res.cmd = ' '.join(cmd)
    try:
        p = subprocess.run(cmd, stdout=subprocess.PIPE, stderr=subprocess.PIPE, text=True, timeout=timeout,
                           cwd=workdir)
    except subprocess.TimeoutExpired:
        res.status, res.reason = 'undecided', f'verus timeout after {timeout}s'
        return res
    res.wall_s = time.time() - t0
    try:
        j = json.loads(p.stdout[p.stdout.index('{'):])
    except Exception:
        res.status, res.reason = 'undecided', 'verus produced no JSON: ' + (p.stderr[-600:] if p.stderr else p.stdout[-300:])
        return res
    res.verus_version = (j.get('verus') or {}).get('version', '')
    vr = j.get('verification-results') or {}
    res.verified = vr.get('verified', 0)
    res.errors = vr.get('errors', 0)
    smt = (j.get('times-ms') or {}).get('smt') or {}
    res.smt_ms = smt.get('total', 0)
    # diagnostics
    diags = []
    for ln in p.stderr.split('\n'):
        ln = ln.strip()
        if not ln.startswith('{'):
            continue
        try:
            d = json.loads(ln)
        except Exception:
            continue
        if d.get('$message_type') == 'diagnostic':
            diags.append(d)
    hard = []
    for d in diags:
        if d.get('level') != 'error':
            continue
        msg = d.get('message', '')
        if msg.startswith('aborting due to'):
            continue
        kind = None
        for pat, k in FAIL_KINDS:
            if pat in msg:
                kind = k
                break
        spans_d = [s for s in d.get('spans', []) if s.get('file_name', '').endswith(os.path.basename(gen))]
        prim = [s for s in spans_d if s.get('is_primary')] or spans_d
        # the function the failure belongs to: the one containing the *last* span (exit point) or any span
        lines_ = [s['line_start'] for s in prim] + [s['line_start'] for s in spans_d if s not in prim]
        owner = None
        for ln_ in lines_:
            for ident, fd in res.functions.items():
                if fd['gen_lines'][0] <= ln_ <= fd['gen_lines'][1] and fd['kind'] != 'spec':
                    owner = ident
                    break
            if owner:
                break
        low = msg.lower()
        if kind is None or owner is None:
            if any(u in low for u in UNDECIDED_MARKERS):
                hard.append('resource: ' + msg[:200])
            else:
                hard.append(msg[:300])
            continue
        if any(u in low for u in UNDECIDED_MARKERS):
            hard.append('resource: ' + msg[:200])
            continue
        txt = ''
        if prim and prim[0].get('text'):
            txt = prim[0]['text'][0].get('text', '').strip()
        res.functions[owner]['failures'].append(dict(kind=kind, message=msg, gen_line=prim[0]['line_start'] if prim else None,
                                                      text=txt, rendered=(d.get('rendered') or '')[:1500]))
        res.raw_errors.append((owner, kind, msg))
    compute_only = bool(res.raw_errors) and all(k == 'assert-by-compute' for (_, k, _) in res.raw_errors) and not hard
    if compute_only and (not vr or vr.get('encountered-vir-error')):
        # a failed `assert(..) by(compute)` stops Verus before the SMT phase: the located failures are the result
        for ident, fd in res.functions.items():
            if fd['kind'] == 'spec' or fd['mode'] == 'trusted':
                fd['ok'] = None
            else:
                fd['ok'] = len(fd['failures']) == 0
        res.reason = 'verus stopped at a failed by(compute) assertion; other functions of this unit were not checked in this run'
        return res
    if not vr or vr.get('encountered-vir-error') or (hard and not res.raw_errors) or (hard and any(not h.startswith('resource') for h in hard)):
        if hard or not vr or vr.get('encountered-vir-error'):
            res.status = 'undecided'
            res.reason = 'verus error (not a failed obligation): ' + ' | '.join(hard[:3]) if hard else 'verus did not complete: ' + p.stderr[-400:]
            return res
    if hard:
        res.status = 'undecided'
        res.reason = ' | '.join(hard[:3])
        return res
    # per-function smt time
    for mod in smt.get('smt-run-module-times', []) or []:
        for fb in mod.get('function-breakdown', []) or []:
            name = fb.get('function', '')
            short = name.split('::', 1)[1] if '::' in name else name
            for ident, fd in res.functions.items():
                if ident == short or ident.split('@')[0] == short:
                    fd['smt_ms'] = fd.get('smt_ms', 0) + fb.get('time-micros', 0) / 1000.0
                    fd['in_breakdown'] = True
                    if fb.get('success') is False and not fd['failures']:
                        fd['failures'].append(dict(kind='unknown', message='verus reports failure without a located diagnostic',
                                                   gen_line=None, text='', rendered=''))
    for ident, fd in res.functions.items():
        if fd['kind'] == 'spec' or fd['mode'] == 'trusted':
            fd['ok'] = None
        else:
            fd['ok'] = len(fd['failures']) == 0
    # consistency: verus' own count of errors must match functions with failures
    nfail = sum(1 for fd in res.functions.values() if fd['failures'])
    if res.errors != nfail:
        # errors counts functions with errors; a mismatch means we failed to attribute something
        res.status = 'undecided'
        res.reason = f'attribution mismatch: verus reports {res.errors} failing functions, located {nfail}'
    return res
