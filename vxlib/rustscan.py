"""A small Rust tokenizer and item locator.

Enough of Rust's lexical grammar to find items by name and to rewrite token
sequences without being fooled by comments, strings, raw strings, byte strings,
chars and lifetimes.  No parsing beyond bracket matching.
"""
import re

IDENT_START = re.compile(r'[A-Za-z_]')
IDENT = re.compile(r'[A-Za-z_][A-Za-z0-9_]*')
NUM = re.compile(r'[0-9][0-9A-Za-z_]*(\.[0-9][0-9A-Za-z_]*)?')

PUNCT3 = ('..=', '...', '<<=', '>>=')
PUNCT2 = ('->', '=>', '::', '==', '!=', '<=', '>=', '&&', '||', '+=', '-=', '*=', '/=',
          '%=', '^=', '&=', '|=', '..', '<<')  # '>>' deliberately not joined (generics)


class Tok:
    __slots__ = ('kind', 'text', 'start', 'end')

    def __init__(self, kind, text, start, end):
        self.kind, self.text, self.start, self.end = kind, text, start, end

    def __repr__(self):
        return f'{self.kind}:{self.text!r}'


class ScanError(Exception):
    pass


def tokenize(src):
    """Return list of Tok; kinds: ws, comment, doc, str, char, lifetime, ident, num, punct."""
    toks = []
    i, n = 0, len(src)
    while i < n:
        c = src[i]
        if c.isspace():
            j = i + 1
            while j < n and src[j].isspace():
                j += 1
            toks.append(Tok('ws', src[i:j], i, j)); i = j; continue
        if src.startswith('//', i):
            j = src.find('\n', i)
            if j < 0:
                j = n
            text = src[i:j]
            kind = 'doc' if (text.startswith('///') and not text.startswith('////')) or text.startswith('//!') else 'comment'
            toks.append(Tok(kind, text, i, j)); i = j; continue
        if src.startswith('/*', i):
            depth, j = 1, i + 2
            while j < n and depth:
                if src.startswith('/*', j):
                    depth += 1; j += 2
                elif src.startswith('*/', j):
                    depth -= 1; j += 2
                else:
                    j += 1
            text = src[i:j]
            kind = 'doc' if text.startswith('/**') or text.startswith('/*!') else 'comment'
            toks.append(Tok(kind, text, i, j)); i = j; continue
        # raw strings r"..", r#".."#, br#".."#
        m = re.match(r'(b?r)(#*)"', src[i:i + 40])
        if m:
            hashes = m.group(2)
            close = '"' + hashes
            j = src.find(close, i + len(m.group(0)))
            if j < 0:
                raise ScanError('unterminated raw string')
            j += len(close)
            toks.append(Tok('str', src[i:j], i, j)); i = j; continue
        if c == '"' or (c == 'b' and i + 1 < n and src[i + 1] == '"'):
            j = i + (2 if c == 'b' else 1)
            while j < n and src[j] != '"':
                j += 2 if src[j] == '\\' else 1
            j += 1
            toks.append(Tok('str', src[i:j], i, j)); i = j; continue
        if c == "'" or (c == 'b' and i + 1 < n and src[i + 1] == "'"):
            k = i + (1 if c == 'b' else 0)
            # char literal or lifetime
            m = re.match(r"'(\\(x[0-9a-fA-F]{2}|u\{[0-9a-fA-F_]+\}|.)|[^\\'])'", src[k:k + 16], re.S)
            if m:
                j = k + len(m.group(0))
                toks.append(Tok('char', src[i:j], i, j)); i = j; continue
            if c == "'":
                m = IDENT.match(src, i + 1)
                if m:
                    j = m.end()
                    toks.append(Tok('lifetime', src[i:j], i, j)); i = j; continue
            raise ScanError(f'bad quote at {i}: {src[i:i+20]!r}')
        if IDENT_START.match(c):
            m = IDENT.match(src, i)
            j = m.end()
            # raw identifier r#type
            toks.append(Tok('ident', src[i:j], i, j)); i = j
            if src[i - 1] == 'r' and j - (i - (j - i)) == 1:
                pass
            continue
        if c.isdigit():
            m = NUM.match(src, i)
            j = m.end()
            # do not swallow '..' range or method call after integer
            text = src[i:j]
            toks.append(Tok('num', text, i, j)); i = j; continue
        for p in PUNCT3:
            if src.startswith(p, i):
                toks.append(Tok('punct', p, i, i + 3)); i += 3; break
        else:
            for p in PUNCT2:
                if src.startswith(p, i):
                    toks.append(Tok('punct', p, i, i + 2)); i += 2; break
            else:
                toks.append(Tok('punct', c, i, i + 1)); i += 1
    # join raw identifiers r#name
    out = []
    k = 0
    while k < len(toks):
        t = toks[k]
        if (t.kind == 'ident' and t.text == 'r' and k + 2 < len(toks) and toks[k + 1].text == '#'
                and toks[k + 2].kind == 'ident' and toks[k + 1].start == t.end and toks[k + 2].start == toks[k + 1].end):
            out.append(Tok('ident', 'r#' + toks[k + 2].text, t.start, toks[k + 2].end))
            k += 3
        else:
            out.append(t); k += 1
    return out


OPEN = {'(': ')', '[': ']', '{': '}'}
CLOSE = {')', ']', '}'}


def code_toks(toks):
    """tokens that are code (no ws/comments/docs)."""
    return [t for t in toks if t.kind not in ('ws', 'comment', 'doc')]


def match_close(ct, i):
    """ct: code tokens, i: index of an opening bracket token -> index of its closer."""
    depth = 0
    for j in range(i, len(ct)):
        x = ct[j].text
        if ct[j].kind == 'punct':
            if x in OPEN:
                depth += 1
            elif x in CLOSE:
                depth -= 1
                if depth == 0:
                    return j
    raise ScanError('unbalanced brackets')


ITEM_KW = {'fn', 'struct', 'enum', 'impl', 'mod', 'trait', 'const', 'static', 'type', 'macro_rules', 'use'}
MODIFIERS = {'pub', 'unsafe', 'extern', 'async', 'default', 'const', 'open', 'closed', 'spec', 'proof', 'exec',
             'uninterp', 'broadcast'}


class Item:
    def __init__(self, kind, name, header, start, end, body_open, attrs_start, ctx):
        self.kind = kind          # fn struct enum impl mod ...
        self.name = name
        self.header = header      # text from first modifier to before body/semicolon
        self.start = start        # char offset of first modifier/keyword (attributes excluded)
        self.end = end            # char offset after closing brace or semicolon
        self.body_open = body_open  # char offset of '{' (or None)
        self.attrs_start = attrs_start  # char offset where preceding #[..] attributes start
        self.ctx = ctx            # list of enclosing (kind, header) for impl/mod


def _items_in(src, ct, lo, hi, ctx, out):
    """Scan code tokens ct[lo:hi] at one nesting level for items."""
    i = lo
    while i < hi:
        t = ct[i]
        # attributes
        attrs_start = None
        while i < hi and ct[i].text == '#' and i + 1 < hi and ct[i + 1].text in ('[', '!'):
            if attrs_start is None:
                attrs_start = ct[i].start
            j = i + 1
            if ct[j].text == '!':
                j += 1
            j = match_close(ct, j)
            i = j + 1
        if i >= hi:
            break
        t = ct[i]
        first = i
        # verus! { ... } : descend
        if t.kind == 'ident' and t.text == 'verus' and i + 2 < hi and ct[i + 1].text == '!' and ct[i + 2].text == '{':
            close = match_close(ct, i + 2)
            _items_in(src, ct, i + 3, close, ctx, out)
            i = close + 1
            continue
        # modifiers
        j = i
        while j < hi and ct[j].kind == 'ident' and ct[j].text in MODIFIERS:
            if ct[j].text == 'pub' and j + 1 < hi and ct[j + 1].text == '(':
                j = match_close(ct, j + 1) + 1
            elif ct[j].text == 'extern' and j + 1 < hi and ct[j + 1].kind == 'str':
                j += 2
            elif ct[j].text == 'const' and j + 1 < hi and ct[j + 1].kind == 'ident' and ct[j + 1].text not in ('fn', 'unsafe', 'extern', 'async', 'exec'):
                break  # const item
            else:
                j += 1
        if j < hi and ct[j].kind == 'ident' and ct[j].text in ITEM_KW:
            kw = ct[j].text
            # find end: first '{' or ';' at bracket depth 0 (generics '<' '>' ignored; parens matter)
            k = j + 1
            name = None
            if kw == 'macro_rules':
                # macro_rules ! name { ... }
                name = ct[j + 2].text
                k = j + 3
            elif kw == 'impl':
                name = None
            else:
                if k < hi and ct[k].kind == 'ident':
                    name = ct[k].text
            depth = 0
            body_open = None
            while k < hi:
                x = ct[k]
                if x.kind == 'punct':
                    if x.text in ('(', '['):
                        k = match_close(ct, k)
                    elif x.text == '{':
                        body_open = k
                        break
                    elif x.text == ';':
                        break
                k += 1
            if k >= hi:
                raise ScanError(f'item without end near {src[ct[first].start:ct[first].start+60]!r}')
            if body_open is not None:
                close = match_close(ct, body_open)
                end_tok = close
                # struct Foo(..); tuple struct handled by ';' path. macro_rules may be followed by nothing.
                header = src[ct[first].start:ct[body_open].start].strip()
                item = Item(kw, name, header, ct[first].start, ct[close].end, ct[body_open].start,
                            attrs_start if attrs_start is not None else ct[first].start, list(ctx))
                out.append(item)
                if kw in ('impl', 'mod', 'trait'):
                    _items_in(src, ct, body_open + 1, close, ctx + [(kw, header)], out)
                i = close + 1
            else:
                header = src[ct[first].start:ct[k].start].strip()
                item = Item(kw, name, header, ct[first].start, ct[k].end, None,
                            attrs_start if attrs_start is not None else ct[first].start, list(ctx))
                out.append(item)
                i = k + 1
            continue
        # not an item start: skip one token (or a bracketed group)
        if t.kind == 'punct' and t.text in OPEN:
            i = match_close(ct, i) + 1
        else:
            i += 1


def items(src):
    toks = tokenize(src)
    ct = code_toks(toks)
    out = []
    _items_in(src, ct, 0, len(ct), [], out)
    return out


def norm(s):
    return re.sub(r'\s+', ' ', s).strip()


def find_item(src, kind, name, impl_filter=None, in_test=False):
    """Locate one item.  impl_filter: substring that must occur in the normalised header of the
    enclosing impl ('-' or None: not inside an impl).  Items inside `mod test(s)` are ignored."""
    cands = []
    for it in items(src):
        if it.kind != kind or it.name != name:
            continue
        mods = [h for (k, h) in it.ctx if k == 'mod']
        if not in_test and any(re.search(r'\bmod tests?\b', h) for h in mods):
            continue
        impls = [norm(h) for (k, h) in it.ctx if k in ('impl', 'trait')]
        if impl_filter in (None, '-', ''):
            if impls:
                continue
        else:
            if not impls or norm(impl_filter) not in impls[-1]:
                continue
        cands.append(it)
    if len(cands) > 1 and impl_filter not in (None, '-', ''):
        exact = [it for it in cands if norm([h for (k, h) in it.ctx if k in ('impl', 'trait')][-1]).endswith(norm(impl_filter))]
        if len(exact) == 1:
            cands = exact
    if len(cands) != 1:
        raise ScanError(f'{kind} {name} (impl filter {impl_filter!r}): {len(cands)} candidates')
    return cands[0]


def strip_comments(text):
    """Remove comments and doc comments from a piece of Rust source, keep everything else."""
    out = []
    for t in tokenize(text):
        if t.kind in ('comment', 'doc'):
            continue
        out.append(t.text)
    return ''.join(out)
