"""Replay of counterexamples on the real code, and witness search after a failed Verus obligation.

Nothing here decides a property.  The search runs only after an obligation has failed, to exhibit an input;
if none is found the violation is still reported (`no-failing-input-found`).
"""
import glob
import json
import os
import shutil
import random
import struct
import subprocess
import time

REPLAY_DIR = 'replay'


def _replay_dir(here):
    """The replay crate is built in /verif/replay against /repo, and in a separate copy under .work/ against a scratch
    tree (VX_REPO): the two must not share a target directory, libhaystack's un-hashed cdylib/rlib outputs would go stale."""
    repo = os.environ.get('VX_REPO', '/repo')
    if repo == '/repo':
        return os.path.join(here, REPLAY_DIR), repo, False
    return os.path.join(here, '.work', 'replay-scratch'), repo, True


def build_replay(here, quiet=True):
    """(Re)build the replay crate against the current working tree of the repository under check (path dependency)."""
    d, repo, scratch = _replay_dir(here)
    env = dict(os.environ, CARGO_NET_OFFLINE='true')
    src = os.path.join(here, REPLAY_DIR)
    if scratch:
        os.makedirs(os.path.join(d, 'src'), exist_ok=True)
        for f in ('src/main.rs', 'Cargo.lock'):
            if os.path.exists(os.path.join(src, f)):
                shutil.copy(os.path.join(src, f), os.path.join(d, f))
    want = open(os.path.join(src, 'Cargo.toml.in')).read().replace('{REPO}', repo)
    toml = os.path.join(d, 'Cargo.toml')
    if not os.path.exists(toml) or open(toml).read() != want:
        with open(toml, 'w') as f:
            f.write(want)
    if scratch:
        subprocess.run(['cargo', 'clean', '--release', '--offline', '-p', 'libhaystack'], cwd=d, env=env,
                       stdout=subprocess.DEVNULL, stderr=subprocess.DEVNULL)
    p = subprocess.run(['cargo', 'build', '--release', '--offline'], cwd=d, env=env,
                       stdout=subprocess.PIPE, stderr=subprocess.STDOUT, text=True)
    if p.returncode != 0:
        if not quiet:
            print(p.stdout[-2000:])
        return 1
    return 0


def replay_bin(here):
    return os.path.join(_replay_dir(here)[0], 'target', 'release', 'replay')


def run_replay(here, family, args, timeout=10):
    """Run one replay; returns dict(outcome=ok|panic|hang|crash, output=...)."""
    try:
        p = subprocess.run([replay_bin(here), family] + [str(a) for a in args], stdout=subprocess.PIPE,
                           stderr=subprocess.PIPE, text=True, timeout=timeout)
    except subprocess.TimeoutExpired:
        return dict(outcome='hang', output=f'no result after {timeout}s')
    out = (p.stdout or '').strip()
    if p.returncode == 0:
        return dict(outcome='ok', output=out[-1500:])
    if p.returncode == 101:
        return dict(outcome='panic', output=(p.stderr or '')[:600])
    if p.returncode == 3:
        return dict(outcome='property-violated', output=out[-1500:])
    return dict(outcome='crash', output=f'exit {p.returncode}: ' + (p.stderr or '')[-400:])


# ------------------------------------------------------------------ decoder witness search
ZINC_TOKENS = ['ver:"3.0"', '\n', 'a', 'b', ',', '1', '"s"', '[', ']', '{', '}', '<<', '>>', ':', ' ', 'M', 'N', '-', '-INF',
               '2020-01-01', '12:00:00', '2020-01-01T12:00:00Z', '@r', '^s', '`u`', 'C(1,2)', 'Bin("x")', '1e', '1kg',
               '\r\n', '\\', '"', '_', 'T', 'NaN', 'Z UTC', '+01:00 X']
FILTER_TOKENS = ['a', 'b', ' ', 'and', 'or', 'not', '(', ')', '->', '==', '!=', '<', '<=', '>', '>=', '*==', '1', '"s"', '@r',
                 '^s', '`u`', 'T', '2020-01-01', '12:00:00', '-', '?', '!', '=', '*', '^', '@', '"', 'inputs', 'outputs', '1kg']


def _candidates(family, repo, seed, budget):
    rnd = random.Random(seed)
    toks = ZINC_TOKENS if family == 'zinc' else FILTER_TOKENS
    out = []
    # short systematic sequences
    for a in toks:
        out.append(a)
    for a in toks:
        for b in toks:
            out.append(a + b)
    corpus = []
    if family == 'zinc':
        for f in glob.glob(os.path.join(repo, 'tests', '**', '*.zinc'), recursive=True)[:4]:
            try:
                corpus.append(open(f, encoding='utf-8', errors='replace').read()[:400])
            except Exception:
                pass
        corpus += ['ver:"3.0"\na,b\n1,2\n3,4\n', 'ver:"3.0" m:1\na x:1,b\n"s",[1,2]\n{a:1},<<\nver:"3.0"\nc\n1\n>>\n',
                   '[1,2,[3,{a:1 b}]]', '{a:1,b:"x" c}', 'ver:"3.0"\na\n1 ', 'ver:"3.0"\na\n1,2\n',
                   # non-ASCII bytes where a unit, an id or a string may continue (two-byte UTF-8 whose second byte is 0x80 / is not)
                   '1\u00c0', '12.5\u00c0', '[42\u0100]', '1\u00e9', '"\u00e9"', '`\u00e9`', '@a\u00e9', '^a\u00e9', 'A\u00e9("x")', '2021-06-19\u00c0']
        for d in (50, 127, 128, 129, 100000):
            out.append('[' * d)
            out.append('{a:' * d)
            out.append('<<ver:"3.0"\na\n' * min(d, 3000))
    else:
        corpus += ['a and b or c', 'a->b->c == 1', 'not a and (b or c)', 'a *== @r', 'x inputs? ^s @r', 'a == "s" and b < 2020-01-01']
        for d in (50, 127, 128, 129, 100000):
            out.append('(' * d + 'a')
            out.append('not ' * d + 'a')
    for c in corpus:
        out.append(c)
        for k in range(0, len(c) + 1):
            out.append(c[:k])
        for _ in range(60):
            if not c:
                continue
            i = rnd.randrange(len(c))
            op = rnd.randrange(4)
            if op == 0:
                out.append(c[:i] + c[i + 1:])
            elif op == 1:
                out.append(c[:i] + rnd.choice(toks) + c[i:])
            elif op == 2:
                out.append(c[:i] + c[i] + c[i:])
            else:
                out.append(c[:i] + chr(rnd.randrange(1, 127)) + c[i + 1:])
    while len(out) < budget:
        n = rnd.randrange(3, 9)
        out.append(''.join(rnd.choice(toks) for _ in range(n)))
    out = out[:budget]
    out.sort(key=len)   # shortest witnesses first
    return out


def search_decoder_witness(here, repo, family, seed=0, budget=6000, wall=90):
    """Feed candidate inputs to the real decoder (batch mode of the replay binary, one child process, restarted
    after a panic/hang/abort).  Returns the first input on which the real code panics, aborts or hangs."""
    cands = _candidates(family, repo, seed, budget)
    t_end = time.time() + wall
    i = 0
    while i < len(cands) and time.time() < t_end:
        p = subprocess.Popen([replay_bin(here), 'batch', family], stdin=subprocess.PIPE, stdout=subprocess.PIPE,
                             stderr=subprocess.DEVNULL)
        start = i
        try:
            import select
            import threading
            chunk = cands[i:]

            def feed():
                try:
                    for c in chunk:
                        p.stdin.write((c.encode('utf-8', errors='replace').hex() + '\n').encode())
                    p.stdin.close()
                except Exception:
                    pass
            th = threading.Thread(target=feed, daemon=True)
            th.start()
            done_idx = -1
            begun = -1
            last = time.time()
            buf = b''
            fd = p.stdout.fileno()
            eof = False
            while not eof:
                r, _, _ = select.select([fd], [], [], 0.5)
                if r:
                    data = os.read(fd, 65536)
                    if not data:
                        eof = True
                    buf += data
                    last = time.time()
                    while b'\n' in buf:
                        ln, buf = buf.split(b'\n', 1)
                        ln = ln.decode(errors='replace')
                        if ln.startswith('B '):
                            begun = int(ln.split()[1])
                        elif ln.startswith('E '):
                            done_idx = int(ln.split()[1])
                            if ln.strip().endswith('panic'):
                                p.kill()
                                return dict(input=cands[start + done_idx], observed='panic')
                else:
                    if p.poll() is not None:
                        eof = True
                    elif time.time() - last > 3.0 and begun > done_idx:
                        p.kill()
                        return dict(input=cands[start + begun], observed='hang (no result within 3 s)')
                    elif time.time() > t_end:
                        p.kill()
                        return None
            rc = p.wait()
            if begun > done_idx:
                return dict(input=cands[start + begun], observed=f'process aborted (exit {rc})')
            i = start + done_idx + 1
            if done_idx < 0:
                break
        finally:
            try:
                p.kill()
            except Exception:
                pass
    return None


# ------------------------------------------------------------------ Kani concrete playback decoding
def decode_concrete(concrete, schema):
    """concrete: list of byte lists in kani::any() order; schema: list of type names."""
    vals = []
    for i, ty in enumerate(schema or []):
        if i >= len(concrete):
            break
        b = bytes(concrete[i])
        try:
            if ty == 'f64':
                vals.append(struct.unpack('<d', b[:8])[0])
            elif ty == 'f64bits':
                vals.append('0x%016x' % struct.unpack('<Q', b[:8])[0])
            elif ty in ('u8', 'bool'):
                vals.append(b[0])
            elif ty == 'i8':
                vals.append(struct.unpack('<b', b[:1])[0])
            elif ty == 'u16':
                vals.append(struct.unpack('<H', b[:2])[0])
            elif ty == 'u32':
                vals.append(struct.unpack('<I', b[:4])[0])
            elif ty == 'i32':
                vals.append(struct.unpack('<i', b[:4])[0])
            elif ty == 'u64':
                vals.append(struct.unpack('<Q', b[:8])[0])
            elif ty == 'i64':
                vals.append(struct.unpack('<q', b[:8])[0])
            elif ty == 'usize':
                vals.append(struct.unpack('<Q', b[:8])[0])
            else:
                vals.append(list(b))
        except Exception:
            vals.append(list(b))
    return vals


_SEARCH_CACHE = {}


def make_replay(pid, v, repo, here, known_entry=None, seed=0):
    rec = dict(property=pid, obligation=v['obligation'], backend=v['backend'], function=v.get('function'),
               source=dict(file=v.get('src_file'), lines=v.get('src_lines')), message=v.get('message'),
               failing_text=v.get('at'), verifier_output=v.get('verifier_output'), failing_input_found=False)
    if v['backend'] == 'verus':
        fam = v.get('witness_family')
        if fam in ('zinc', 'filter'):
            if build_replay(here) == 0:
                if fam not in _SEARCH_CACHE:
                    _SEARCH_CACHE[fam] = search_decoder_witness(here, repo, fam, seed=seed)
                w = _SEARCH_CACHE[fam]
                if w:
                    rec['failing_input_found'] = True
                    rec['input'] = w['input'] if len(w['input']) < 400 else (w['input'][:60] + f'... ({len(w["input"])} bytes)')
                    rec['input_hex'] = w['input'].encode('utf-8', errors='replace').hex() if len(w['input']) < 4000 else None
                    rec['input_desc'] = None if len(w['input']) < 4000 else dict(repeat=w['input'][:8], length=len(w['input']))
                    rec['observed_on_real_code'] = w['observed']
                    rec['replay_cmd'] = f'{replay_bin(here)} {fam} <input_hex>'
                else:
                    rec['witness_search'] = f'{fam}: no panic/hang/abort among the candidates tried'
            else:
                rec['witness_search'] = 'replay crate does not build against the current tree'
        elif fam and (isinstance(fam, list) or fam.startswith('enum:')):
            fams = fam if isinstance(fam, list) else [fam]
            if build_replay(here) == 0:
                rec['witness_search'] = 'small-value enumerators ' + ', '.join(fams)
                for f1 in fams:
                    r = run_replay(here, f1, [], timeout=120)
                    rec['observed_on_real_code'] = r
                    rec['replay_cmd'] = f'{replay_bin(here)} {f1}'
                    if r['outcome'] != 'ok':
                        rec['failing_input_found'] = True
                        rec['input'] = r['output']
                        break
            else:
                rec['witness_search'] = 'replay crate does not build against the current tree'
        else:
            rec['witness_search'] = 'no witness enumerator for this obligation family'
    elif v['backend'] == 'replay':
        rec['observed_on_real_code'] = v.get('observed')
        rec['replay_cmd'] = f"{replay_bin(here)} {v.get('family')}"
        rec['failing_input_found'] = True
        rec['input'] = (v.get('observed') or {}).get('output')
    elif v.get('one_spelling') and v.get('witness_family'):
        # a Kani harness that pins one of several legal spellings (e.g. the order of the members of a Hayson object): the failed
        # assertion alone is not a violation; the property's enumerators decide
        fam = v['witness_family']
        fams = fam if isinstance(fam, list) else [fam]
        rec['counterexample'] = dict(raw=v.get('concrete'))
        if build_replay(here) == 0:
            rec['witness_search'] = 'small-value enumerators ' + ', '.join(fams)
            for f1 in fams:
                r = run_replay(here, f1, [], timeout=120)
                rec['observed_on_real_code'] = r
                rec['replay_cmd'] = f'{replay_bin(here)} {f1}'
                if r['outcome'] != 'ok':
                    rec['failing_input_found'] = True
                    rec['input'] = r['output']
                    break
        else:
            rec['witness_search'] = 'replay crate does not build against the current tree'
    else:
        conc = v.get('concrete')
        if conc and v.get('schema') == 'raw' and v.get('replay_family'):
            vals = [bytes(c).hex() for c in conc]
            rec['counterexample'] = dict(schema='raw bytes of each kani::any() in harness order', values=vals)
            if build_replay(here) == 0:
                fam_ = v['replay_family']
                args_ = [] if fam_.startswith('enum:') else vals
                r = run_replay(here, fam_, args_, timeout=120)
                rec['observed_on_real_code'] = r
                rec['replay_cmd'] = f'{replay_bin(here)} {fam_} ' + ' '.join(args_)
                if r['outcome'] in ('property-violated', 'panic', 'hang', 'crash'):
                    rec['failing_input_found'] = True
                else:
                    rec['note'] = 'the counterexample did not reproduce on the non-Kani build (spurious or harness-specific)'
        elif conc and v.get('schema') and v.get('replay_family'):
            vals = decode_concrete(conc, v['schema'])
            rec['counterexample'] = dict(schema=v['schema'], values=vals, raw=conc)
            if build_replay(here) == 0:
                r = run_replay(here, v['replay_family'], vals)
                rec['observed_on_real_code'] = r
                rec['replay_cmd'] = f'{replay_bin(here)} {v["replay_family"]} ' + ' '.join(str(x) for x in vals)
                if r['outcome'] in ('property-violated', 'panic', 'hang', 'crash'):
                    rec['failing_input_found'] = True
                else:
                    rec['note'] = 'the counterexample did not reproduce on the non-Kani build (spurious or harness-specific)'
        elif conc:
            rec['counterexample'] = dict(raw=conc)
    return rec


def replay_file(path, here):
    rec = json.load(open(path))
    print(json.dumps({k: rec.get(k) for k in ('property', 'obligation', 'message', 'input', 'counterexample')}, indent=1, default=str))
    if build_replay(here, quiet=False) != 0:
        print('replay crate does not build')
        return 2
    if rec.get('input_hex'):
        fam = 'zinc' if rec['obligation'].startswith('u_z') else 'filter'
        r = run_replay(here, fam, [rec['input_hex']])
        print('REPLAY', r)
        return 1 if r['outcome'] != 'ok' else 0
    ce = rec.get('counterexample')
    if ce and rec.get('replay_cmd'):
        parts = rec['replay_cmd'].split()
        r = run_replay(here, parts[1], parts[2:])
        print('REPLAY', r)
        return 1 if r['outcome'] != 'ok' else 0
    print('no input recorded (no-failing-input-found); verifier output:')
    print(rec.get('verifier_output'))
    return 1
