"""Mechanical extraction of the unit database (src/haystack/units/units_generated.rs) into Verus spec data,
plus the by(compute) lemmas of C15/C16 over it.  Runs on every check; nothing is cached.

What is extracted: every `pub static ref NAME: Unit = Unit { quantity, ids: [..].to_vec(), dimensions, scale, offset }`
and every `("id", &*NAME)` pair of the `UNITS` map initialiser.  Dropped: quantity, scale and offset values
(only their presence is parsed), lazy_static initialisation, HashMap construction (assumed: `collect()` of
distinct keys maps each key to the value written next to it).
"""
import os
import re

from .extract import Undecided

CHUNK = 32


def parse_units(src):
    statics = {}
    for m in re.finditer(r'pub static ref ([A-Z0-9_]+): Unit = Unit \{(.*?)\n    \};', src, flags=re.S):
        name, body = m.group(1), m.group(2)
        mi = re.search(r'ids:\s*\[(.*?)\]\s*\.to_vec\(\)', body, flags=re.S)
        if not mi:
            raise Undecided(f'units table: cannot parse ids of {name}')
        ids = re.findall(r'"((?:[^"\\]|\\.)*)"\.to_string\(\)', mi.group(1))
        if re.search(r'dimensions:\s*None', body):
            dims = None
        else:
            md = re.search(r'dimensions:\s*Some\(\s*UnitDimensions\s*\{(.*?)\}', body, flags=re.S)
            if not md:
                raise Undecided(f'units table: cannot parse dimensions of {name}')
            dims = {}
            for k, v in re.findall(r'(\w+):\s*(-?\d+)', md.group(1)):
                dims[k] = int(v)
            if sorted(dims.keys()) != ['a', 'cd', 'k', 'kg', 'm', 'mol', 'sec']:
                raise Undecided(f'units table: unexpected dimension fields in {name}: {sorted(dims)}')
        statics[name] = dict(ids=ids, dims=dims)
    mt = re.search(r'pub static ref UNITS: HashMap<&\'static str, &\'static Unit> = \[(.*?)\]\s*\.iter\(\)\s*\.cloned\(\)\s*\.collect\(\);', src, flags=re.S)
    if not mt:
        raise Undecided('units table: UNITS initialiser not found')
    pairs = re.findall(r'\(\s*"((?:[^"\\]|\\.)*)"\s*,\s*&\*([A-Z0-9_]+)\s*,?\s*\)', mt.group(1))
    if not pairs or not statics:
        raise Undecided('units table: empty')
    n_paren = len(re.findall(r'&\*[A-Z0-9_]+', mt.group(1)))
    if n_paren != len(pairs):
        raise Undecided(f'units table: {n_paren} entries but {len(pairs)} parsed')
    return statics, pairs


def _unescape(s):
    # the generated file uses plain UTF-8 literals; handle the few escapes Rust allows
    return s.encode('utf-8').decode('unicode_escape').encode('latin-1').decode('utf-8') if '\\' in s else s


def _seq(bs):
    return 'seq![' + ','.join(f'{b}u8' for b in bs) + ']'


def generate(repo):
    path = os.path.join(repo, 'src/haystack/units/units_generated.rs')
    if not os.path.exists(path):
        raise Undecided('lost anchor: units_generated.rs')
    src = open(path, encoding='utf-8').read()
    statics, pairs = parse_units(src)
    names = sorted(statics.keys())
    uidx = {n: i for i, n in enumerate(names)}
    table = []
    for ident, st in pairs:
        if st not in uidx:
            raise Undecided(f'units table: pair refers to unknown static {st}')
        table.append((_unescape(ident).encode('utf-8'), uidx[st]))
    table.sort(key=lambda t: t[0])
    pos = {}
    for k, (b, u) in enumerate(table):
        pos.setdefault(b, k)          # duplicates are exposed by the strict-order lemma
    out = []
    w = out.append
    w('// GENERATED on every run by vxlib/unitsgen.py from src/haystack/units/units_generated.rs')
    w(f'// {len(names)} Unit literals, {len(table)} (identifier, unit) pairs')
    w('verus! {')
    w('pub open spec fn unit_id_byte(c: u8) -> bool { (65 <= c <= 90) || (97 <= c <= 122) || c == 36 || c == 47 || c == 37 || c == 95 || c > 128 }')
    w('pub open spec fn all_unit_bytes(s: Seq<u8>) -> bool decreases s.len() { if s.len() == 0 { true } else { unit_id_byte(s[0]) && all_unit_bytes(s.subrange(1, s.len() as int)) } }')
    w('pub open spec fn bytes_lt(a: Seq<u8>, b: Seq<u8>) -> bool decreases a.len() { if b.len() == 0 { false } else if a.len() == 0 { true } else if a[0] < b[0] { true } else if a[0] > b[0] { false } else { bytes_lt(a.subrange(1, a.len() as int), b.subrange(1, b.len() as int)) } }')
    w('/// an identifier the number lexer can split off a magnitude: all unit bytes, non-empty, and not mistaken for an exponent')
    w('pub open spec fn lexable_unit_id(s: Seq<u8>) -> bool { s.len() > 0 && all_unit_bytes(s) && !((s[0] == 101 || s[0] == 69) && s.len() > 1 && (s[1] == 43 || s[1] == 45 || (48 <= s[1] <= 57))) }')
    nchunks = (len(table) + CHUNK - 1) // CHUNK
    lemmas = []
    for c in range(nchunks):
        part = table[c * CHUNK:(c + 1) * CHUNK]
        w(f'pub open spec fn tid_{c}() -> Seq<Seq<u8>> {{ seq![' + ','.join(_seq(b) for b, _ in part) + '] }')
        w(f'pub open spec fn tun_{c}() -> Seq<int> {{ seq![' + ','.join(f'{u}int' for _, u in part) + '] }')
        w(f'pub open spec fn tok_{c}(k: int) -> bool decreases k {{ if k <= 0 {{ true }} else {{ lexable_unit_id(tid_{c}()[k-1]) && (k < 2 || bytes_lt(tid_{c}()[k-2], tid_{c}()[k-1])) && tok_{c}(k-1) }} }}')
        w(f'/// C15 (a)+(c): table chunk {c}: identifiers strictly increasing (hence pairwise distinct) and lexable as units')
        w(f'pub proof fn lemma_units_table_chunk_{c}() ensures tok_{c}({len(part)}) {{ assert(tok_{c}({len(part)})) by(compute); }}')
        lemmas.append(f'lemma_units_table_chunk_{c}')
    # chunk boundaries
    w('/// C15 (a): the chunks are in increasing order too')
    w('pub proof fn lemma_units_table_chunk_order() ensures')
    conds = []
    for c in range(nchunks - 1):
        n = len(table[c * CHUNK:(c + 1) * CHUNK])
        conds.append(f'bytes_lt(tid_{c}()[{n - 1}], tid_{c + 1}()[0])')
    w('    ' + ',\n    '.join(conds) + ',')
    w('{')
    for cnd in conds:
        w(f'    assert({cnd}) by(compute);')
    w('}')
    # table accessors
    w('pub open spec fn table_id(k: int) -> Seq<u8> {')
    for c in range(nchunks):
        w(f'    {"if" if c == 0 else "else if"} k < {(c + 1) * CHUNK} {{ tid_{c}()[k - {c * CHUNK}] }}')
    w('    else { Seq::<u8>::empty() } }')
    w('pub open spec fn table_unit(k: int) -> int {')
    for c in range(nchunks):
        w(f'    {"if" if c == 0 else "else if"} k < {(c + 1) * CHUNK} {{ tun_{c}()[k - {c * CHUNK}] }}')
    w('    else { -1 } }')
    # (b): every id of every Unit literal is bound to that literal
    flat = []
    for n in names:
        for ident in statics[n]['ids']:
            b = _unescape(ident).encode('utf-8')
            flat.append((b, uidx[n], pos.get(b, len(table))))
    fch = (len(flat) + CHUNK - 1) // CHUNK
    for c in range(fch):
        part = flat[c * CHUNK:(c + 1) * CHUNK]
        w(f'pub open spec fn fid_{c}() -> Seq<Seq<u8>> {{ seq![' + ','.join(_seq(b) for b, _, _ in part) + '] }')
        w(f'pub open spec fn fun_{c}() -> Seq<int> {{ seq![' + ','.join(f'{u}int' for _, u, _ in part) + '] }')
        w(f'pub open spec fn fpos_{c}() -> Seq<int> {{ seq![' + ','.join(f'{p}int' for _, _, p in part) + '] }')
        w(f'pub open spec fn fok_{c}(k: int) -> bool decreases k {{ if k <= 0 {{ true }} else {{ table_id(fpos_{c}()[k-1]) == fid_{c}()[k-1] && table_unit(fpos_{c}()[k-1]) == fun_{c}()[k-1] && fok_{c}(k-1) }} }}')
        w(f'/// C15 (b): each identifier of each Unit literal (chunk {c}) is a key of the table bound to that very literal')
        w(f'pub proof fn lemma_unit_ids_bound_chunk_{c}() ensures fok_{c}({len(part)}) {{ assert(fok_{c}({len(part)})) by(compute); }}')
        lemmas.append(f'lemma_unit_ids_bound_chunk_{c}')
    # (e): every table key is one of the ids of the unit it is bound to  (witness: index into that unit's ids)
    wit = []
    for b, u in table:
        ids = [_unescape(i).encode('utf-8') for i in statics[names[u]]['ids']]
        wit.append(ids.index(b) if b in ids else -1)
    for c in range(nchunks):
        part = wit[c * CHUNK:(c + 1) * CHUNK]
        tpart = table[c * CHUNK:(c + 1) * CHUNK]
        w(f'pub open spec fn kwit_{c}() -> Seq<int> {{ seq![' + ','.join(f'{x}int' for x in part) + '] }')
        # the identifier list of the Unit literal each key of this chunk is bound to
        w(f'pub open spec fn kids_{c}() -> Seq<Seq<Seq<u8>>> {{ seq![' + ','.join(
            'seq![' + ','.join(_seq(_unescape(x).encode('utf-8')) for x in statics[names[u]]['ids']) + ']' for _, u in tpart) + '] }')
        w(f'pub open spec fn kok_{c}(k: int) -> bool decreases k {{ if k <= 0 {{ true }} else {{ 0 <= kwit_{c}()[k-1] < kids_{c}()[k-1].len() && kids_{c}()[k-1][kwit_{c}()[k-1]] == tid_{c}()[k-1] && kok_{c}(k-1) }} }}')
        w(f'/// C15 (e): every key of the table (chunk {c}) is one of the identifiers of the unit it is bound to')
        w(f'pub proof fn lemma_table_keys_are_ids_chunk_{c}() ensures kok_{c}({len(part)}) {{ assert(kok_{c}({len(part)})) by(compute); }}')
        lemmas.append(f'lemma_table_keys_are_ids_chunk_{c}')
    # (d): dimension exponents bounded
    dims = [statics[n]['dims'] for n in names if statics[n]['dims'] is not None]
    dch = (len(dims) + CHUNK - 1) // CHUNK
    for c in range(dch):
        part = dims[c * CHUNK:(c + 1) * CHUNK]
        w(f'pub open spec fn dim_rows_{c}() -> Seq<Seq<int>> {{ seq![' + ','.join(
            'seq![' + ','.join(f'{d[k]}int' for k in ('kg', 'm', 'sec', 'k', 'a', 'mol', 'cd')) + ']' for d in part) + '] }')
        w(f'pub open spec fn dims_bounded_{c}(k: int) -> bool decreases k {{ if k <= 0 {{ true }} else {{ -8 <= dim_rows_{c}()[k-1][0] <= 8 && -8 <= dim_rows_{c}()[k-1][1] <= 8 && -8 <= dim_rows_{c}()[k-1][2] <= 8 && -8 <= dim_rows_{c}()[k-1][3] <= 8 && -8 <= dim_rows_{c}()[k-1][4] <= 8 && -8 <= dim_rows_{c}()[k-1][5] <= 8 && -8 <= dim_rows_{c}()[k-1][6] <= 8 && dims_bounded_{c}(k-1) }} }}')
        w(f'/// C16: every dimension exponent of the database units (chunk {c}) lies in [-8, 8], so i8 sums/differences of two cannot overflow')
        w(f'pub proof fn lemma_unit_dims_bounded_chunk_{c}() ensures dims_bounded_{c}({len(part)}) {{ assert(dims_bounded_{c}({len(part)})) by(compute); }}')
        lemmas.append(f'lemma_unit_dims_bounded_chunk_{c}')
    w('} // verus!')
    info = dict(units=len(names), pairs=len(table), flat_ids=len(flat), lemmas=lemmas + ['lemma_units_table_chunk_order'],
                sha256=__import__('hashlib').sha256(src.encode()).hexdigest())
    return '\n'.join(out), info
