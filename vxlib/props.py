"""Which obligations decide which property.

verus:  list of (unit, [regex over function identifiers]) -- the matching *verified* functions and lemmas of
        that unit are this property's Verus obligations; `canary_*` functions of the unit must fail.
kani:   list of dict(harness=..., klass='complete'|'bounded', bound=..., schema=[...], family=...)
"""

ZDEC_FUNCS = [r'^Scanner::', r'^parse_', r'^is_unit_char$', r'^is_partial_date$', r'^as_date$', r'^Lexer::',
              r'^LexerToken::', r'^Parser::', r'^RowParser::', r'^RowIterator::', r'^collect_rows$',
              r'^Number::<From<f64>>::from$']

PROPS = {
    'C03': dict(
        title='Decoders are total',
        verus=[('u_zparse', ZDEC_FUNCS)],
        kani=[],
        witness='zinc',
        design_ref='DESIGN.md section 4, C03',
        level_text=('Proof (Verus, unbounded): panic-freedom and termination of the Zinc scanner, scalar parsers, lexer and '
                    'value/list/dict/grid parsers including the lazy row iterator, for all byte strings and every reader '
                    'behaviour allowed by the reader contract; recursion depth bounded by the nesting budget '
                    '(decreases MAX_NESTING_DEPTH - depth).'),
        not_decided=('serde_json (Hayson driver) and the visit_map/visit_seq impls; panics inside chrono, f64::from_str, '
                     'get_unit (assumed none); parse_time_zone tail and parse_datetime chrono tail (trusted contracts); '
                     'Scanner::expect_and_consume_seq (enumerate loop, trusted); allocation failure; that '
                     'MAX_NESTING_DEPTH frames fit the native stack.'),
    ),
}
