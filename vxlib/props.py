"""Which obligations decide which property.

verus:  list of (unit, [regex over function identifiers]) -- the matching *verified* functions and lemmas of
        that unit are this property's Verus obligations; `canary_*` functions of the unit must fail.
kani:   list of dict(harness=..., klass='complete'|'bounded', bound=..., schema=[...], family=...)
"""

ZDEC_FUNCS = [r'^Scanner::', r'^parse_', r'^is_unit_char$', r'^is_partial_date$', r'^as_date$', r'^Lexer::',
              r'^LexerToken::', r'^Parser::', r'^RowParser::', r'^RowIterator::', r'^collect_rows$',
              r'^Number::<From<f64>>::from$']

PROPS = {
    'C03': dict(
        title='Decoders are total',
        verus=[('u_zparse', ZDEC_FUNCS),
               ('u_jdec', [r'^JsonValueDecoderVisitor::visit_map$', r'^JsonValueDecoderVisitor::visit_seq$']),
               ('u_getters', [r'^parse_ref$', r'^parse_symbol$', r'^parse_uri$', r'^parse_coord$', r'^parse_xstr$', r'^parse_date$', r'^parse_time$', r'^parse_datetime$', r'^parse_number$'])],
        kani=[dict(harness='k_scanner_classes', klass='complete', schema=['u8'], family=None, target='Scanner::is_* byte classes assumed by the units'),
              dict(harness='k_u8_classes', klass='complete', schema=['u8'], family=None, target='u8::is_ascii_* assumed by the prelude'),
              dict(harness='k_reader_chunks_small', klass='bounded', bound='2-byte stream, <= 1 Interrupted result, symbolic chunk lengths',
                   target='Scanner::make / read_byte (reader contract)', timeout=600),
              dict(harness='k_reader_chunks', klass='bounded', bound='3-byte stream, <= 2 Interrupted results, symbolic chunk lengths',
                   target='Scanner::make / read_byte (reader contract)', timeout=1500, thorough_only=True)],
        witness='zinc',
        design_ref='DESIGN.md section 4, C03',
        level_text=('Proof (Verus, unbounded): panic-freedom and termination of the Zinc scanner, scalar parsers, lexer and '
                    'value/list/dict/grid parsers including the lazy row iterator, for all byte strings and every reader '
                    'behaviour allowed by the reader contract; recursion depth bounded by the nesting budget '
                    '(decreases MAX_NESTING_DEPTH - depth).'
                    ' Hayson side: the object and array visitors of the decoder (visit_map, visit_seq) and the per-kind decoders parse_ref / symbol / uri / coord / xstr / date / time / datetime / number are verified on their real bodies, hence panic-free and terminating for every member list serde hands over.'),
        not_decided=('serde_json itself (the Hayson driver: its text scanner and 128-level recursion limit) and the Hayson parse_grid; panics inside chrono, f64::from_str, '
                     'get_unit (assumed none); the chrono tail of parse_datetime (trusted contract; parse_time_zone is verified, with Duration/FixedOffset of chrono seen through their seconds); '
                     'allocation failure; that '
                     'MAX_NESTING_DEPTH frames fit the native stack.'),
    ),
    'C09': dict(
        title='The filter parser is total',
        verus=[('u_filter', [r'^Scanner::', r'^parse_', r'^is_unit_char$', r'^is_partial_date$', r'^as_date$', r'^Lexer::',
                             r'^LexerToken::', r'^Parser::']),
               ('u_weval', [r'^WildcardEq::eval$', r'^Ref::<PartialEq>::eq$']),
               ('u_feval', [r'^(Filter|Or|And|Term|Parens|Has|Missing|Cmp)::eval$'])],
        kani=[],
        witness='filter', enums=['enum:wildcard-cycles'],
        design_ref='DESIGN.md section 4, C09',
        level_text=('Proof (Verus, unbounded): panic-freedom and termination of the filter lexer and parser (and the Zinc '
                    'scanner/scalar parsers they reuse) for all byte strings; recursion through parentheses bounded by the '
                    'nesting budget (decreases MAX_NESTING_DEPTH - depth). Evaluation: the ref-chain loop of WildcardEq::eval (`id *== @ref`) terminates '
                    'for every resolver that answers for finitely many ref ids, whatever cycles the refs form: each turn that does not leave '
                    'the loop adds to the visited set an id the resolver knows and that was not there (decreases |known ids| - |visited|).'),
        not_decided=('Termination of Relation::eval and IsA::eval (they go through the namespace) and of the caller-supplied resolver itself; Or / And / Parens / Term / Has / Missing / Cmp are proved to terminate (structural recursion over the filter tree, unit u_feval); '
                     'a resolver that invents a fresh record for every ref (infinitely many ids) is outside the termination claim; '
                     'the reader is '
                     'assumed to fail only at end of input (filters are parsed from in-memory strings); '
                     'c_api::haystack_filter_parse.'),
    ),
    'C08': dict(
        title='Filter text and filter tree correspond',
        verus=[('u_filter', [r'^Lexer::parse_path$', r'^Parser::to_cmp_op$', r'^Lexer::greater_or_less$', r'^parse_id$', r'^parse_literal$']),
               ('u_enc', [r'^Number::to_zinc$', r'^write_quoted_str$', r'^Str::to_zinc$'], dict(one_spelling=True)),
               ('u_fprint', [r'::fmt$', r'^lemma_op_pieces$', r'^(fp_|join_|path_text|op_text)'], dict(one_spelling=True)),
               ('u_fgram', [r'^Parser::', r'^lemma_join_', r'^lemma_drop_last_push$'], dict(beyond_property='the token-grammar contract also rejects a parser that starts to accept text which is not a filter, about which the property is silent'))],
        kani=[],
        witness=['enum:filter-print-parse', 'enum:random-filters'],
        enums_thorough=['enum:filter-eval-exhaustive', 'enum:random-filters 200000'],
        design_ref='DESIGN.md section 4, C08',
        level_text=('Proof (Verus), parser side, token level (u_fgram): a specification tok_or / tok_and / tok_term of the token spelling of a filter tree is '
                    'written from the filter grammar -- an `or` is its operands separated by the token or, each operand an `and`: its terms separated by the '
                    'token and; a group is ( or ); not path; path op literal; ^symbol; path *== ref; rel? [^term] [@ref] -- and every real parser function '
                    '(parse, parse_or, parse_and, parse_term, parse_cmp_or_wildcard_eq, parse_parens, parse_nested_parens, parse_not, parse_cmp, '
                    'parse_wildcard_eq, parse_rel, to_cmp_op) is proved to consume exactly the spelling of the tree it returns: whenever Parser::parse '
                    'accepts, the tokens the lexer delivered are tok_or(tree) followed by the end of input, for every input (so `and` binds tighter than `or`, '
                    'parentheses group, each literal is the token read). The lexer is seen through its contract there (its clauses are proved on the real '
                    'Lexer::read in u_filter) plus two history variables: the tokens read so far and whether a read ever failed; the statement is for runs '
                    'in which no lexical error was swallowed. Lexer side (u_filter): a path token has 1 + (number of -> consumed) segments, i.e. it '
                    'ends at the first token that is not ->, and its first segment is the identifier read; to_cmp_op maps the six '
                    'operator tokens one-to-one to the six operators and rejects everything else. Print side (u_fprint): a specification fp_or / fp_and / '
                    'fp_term of the text of a filter tree is written from the filter grammar -- operands of `or` separated by " or ", operands of `and` by '
                    '" and ", a group between "( " and " )", `not path`, `path op literal` with the six operator spellings, `^symbol`, `path *== ref`, '
                    '`rel? [^term] [@ref]`, path segments joined by -> -- and the real Display impls of Filter, Or, And, Term, Parens, Has, Missing, IsA, Cmp, '
                    'WildcardEq, Relation, Path and Id are proved to write exactly that text for every tree (loops over operands by invariant, mutual recursion '
                    'by a decreases measure on the tree). Literals: a finite unit-less number '
                    'literal is printed as the Display text of exactly its f64 (no detour through an integer) and a string literal as " + enc(s) + ".'),
        not_decided=('print-then-parse = identity as one theorem: the printer is proved against the text grammar and the parser against the token grammar; '
                     'that lexing the printed text yields the token spelling (the lexer as a function from text to tokens) and that the token spelling '
                     'determines the tree are not proved, so the two halves are joined by the bounded enumerator enum:filter-print-parse (49 filter texts '
                     'covering every term kind and literal kind incl. refs with display names and zoned timestamps, plus 6 precedence/grouping shapes); '
                     'core::fmt is trusted to render each format string as its literal pieces around the Display texts of the arguments; literal values '
                     'print through the Zinc encoder (decided in u_enc); operator spelling clauses of Lexer::read. The printer contract pins one legal spelling '
                     '(e.g. "( a )"): when it fails and the enumerator finds no filter for which print-then-parse fails, the outcome is undecided (exit 2), not a violation.'),
    ),
    'C20': dict(
        title='Display names follow the documented precedence and macro substitution',
        verus=[('u_dis', [r'^dict_to_dis$', r'^decode_str_from_value$', r'^DisReplacer::replace_append$', r'^first_dis_tag$', r'^dec_text$', r'^macro_text$'])],
        kani=[],
        witness='enum:dis',
        enums_thorough=['enum:dis 200000'],
        design_ref='DESIGN.md section 4, C20',
        level_text=('Proof (Verus, every record, every localisation function, every default) on the real body of dict_to_dis: the display string is '
                    'taken from the first of dis, disMacro, disKey, name, def, tag, navName, id that the record has (first_dis_tag, written from the '
                    'documented order), else the default: a Str tag contributes its characters and any other value its display text '
                    '(decode_str_from_value, also proved on its real body); disKey is looked up with the localisation function given and used '
                    'verbatim when there is no localisation; an id that is a Ref contributes its display name, or its id when it has none; a '
                    'disMacro that is a Str goes to the substitution engine, any other disMacro value is displayed as such. '
                    'Substitution of one match (Verus, real body of DisReplacer::replace_append, the regex captures seen through the text of each '
                    'group): $tag / ${tag} is replaced by the tag value\'s text (a Ref its display name or id, a Str its characters, anything else '
                    'its Zinc text) when the lookup finds the tag, $<key> by its localisation when there is one, and the whole match is copied '
                    'verbatim otherwise; nothing else is appended. The closure `.map(Cow::Borrowed)` is eta-expanded by rule R26 and the local '
                    'closure default_replace is inlined by rule R27 (this Verus has neither constructors as function values nor closures that '
                    'mutate what they capture).'),
        not_decided=('which substrings of a pattern are matches (the regular expression and regex::Regex::replace_all are trusted: '
                     'text outside matches is copied, each match is handed to the replacer once, left to right) -- hence "text without a $ is returned '
                     'unchanged" and "substitution never panics" rest on the bounded enumerator enum:dis (400 seeded random records and patterns per run, 200 000 in the thorough tier, and 768 fixed records: every subset of the eight '
                     'display tags x Str / non-Str / Ref values against an oracle written from the precedence order, and 32 patterns incl. one-letter '
                     'tags, braces, localisation keys, unterminated and non-ASCII forms against the macro rules); Cow<str> is seen through the text it holds; '
                     'Dict::get is BTreeMap lookup.'),
        technique='contract-based deductive verification: Verus postconditions on the real bodies of dict_to_dis and the macro replacer',
    ),
    'C19': dict(
        title='Kinds, typed accessors and grid construction are coherent',
        verus=[('u_kinds', [r'^Value::is_', r'^Value::has_value$', r'^kind_from_value$', r'^try_from_value_for_', r'^lemma_exactly_one_kind$',
                            r'^check_exactly_one_predicate$', r'^kind_to_name$', r'^kind_from_name$']),
               ('u_getters', [r'^Dict::get_', r'^Dict::has_']),
               ('u_gridmk', [r'^Grid::make_from_dicts_with_meta$'])],
        kani=[dict(harness='k_kind_u8', klass='complete', schema=['u8'], family='kind-u8', target='HaystackKind::try_from(u8)'),
              dict(harness='k_kind_code_roundtrip', klass='complete', schema=['u8'], family='kind-u8', target='HaystackKind as u8'),
              dict(harness='k_kind_name_roundtrip', klass='complete', schema=['u8'], family='kind-name', target='HaystackKind <-> &str')],
        witness=['enum:kinds-grid', 'enum:random-kinds-grid'],
        enums_thorough=['enum:random-kinds-grid 200000'],
        design_ref='DESIGN.md section 4, C19',
        level_text=('Proof: Verus for all values (each of the 18 kind predicates equals kind_of(v) == K, exactly one is true, '
                    'From<&Value> for HaystackKind equals kind_of, each of the 20 TryFrom<&Value> conversions succeeds exactly for the '
                    'matching kind and returns the stored payload; each of the 14 typed Dict getters and 3 has_* tests succeeds exactly when the key is bound to a value of that kind and returns that payload); Kani complete over all 256 codes and all 18 kinds for the '
                    'code and name tables. The name table is also proved in Verus for strings of any length: kind_name is the list of Haystack kind names typed in from the '
                    'specification; the real From<HaystackKind> for &str returns kind_name(k), and the real TryFrom<&str> returns Ok(k) only for kind_name(k) and for every kind '
                    'name (so the table is a bijection; this replaces the former bounded Kani harness over strings of at most 9 bytes).'),
        not_decided=('Grid::make_from_dicts (HashSet, nested closures, sort_by: outside both tools; named grid_from_dicts and decided only by the bounded enumerators -- the real Grid::make_from_dicts_with_meta is proved to return that grid with exactly the given meta: same rows, columns and version); BTreeMap lookup itself (Dict::get is modelled by an uninterpreted function); '
                     'Display for HaystackKind agreeing with the name table (core::fmt).'),
        technique='contract-based deductive verification: Verus on extracted real bodies + Kani complete finite-domain harnesses',
    ),
    'C12': dict(
        title='Value equality, hashing and ordering are mutually consistent',
        verus=[('u_eq', [r'^Value::<PartialEq>::eq$', r'^Ref::<PartialEq>::eq$', r'^Dict::partial_cmp$', r'^lemma_value_eq_same_kind$',
                         r'^Value::is_(null|marker|remove|na)$']),
               ('u_eq', [r'^Dict::cmp$', r'^lemma_dict_cmp_eq$'], dict(one_spelling=True)),
               ('u_hash', [r'^Value::hash$', r'^Ref::hash$', r'^lemma_value_eq_hash$', r'^Ref::cmp$', r'^Ref::partial_cmp$', r'^lemma_ref_cmp_eq$', r'^(Date|Time|DateTime)::(cmp|partial_cmp)$'], dict(one_spelling=True))],
        kani=[dict(harness='k_number_laws', klass='complete', schema=['f64', 'f64', 'f64'], family='number-laws', target='Number eq/cmp/partial_cmp'),
              dict(harness='k_number_eq_hash', klass='complete', schema=['f64', 'f64'], family='number-hash', target='Number eq/hash'),
              dict(harness='k_number_units_cmp_eq', klass='complete', schema=['u8', 'u8', 'f64', 'f64'], family='number-units', target='Number cmp/eq with units'),
              dict(harness='k_number_units_partial_total', klass='complete', schema=['u8', 'u8', 'f64', 'f64'], family='number-units', target='Number partial_cmp/cmp with units'),
              dict(harness='k_coord_laws', klass='complete', schema=['f64'] * 6, family='coord-laws', target='Coord eq/cmp/partial_cmp'),
              dict(harness='k_coord_eq_hash', klass='complete', schema=['f64'] * 4, family='coord-hash', target='Coord eq/hash')],
        witness=['enum:eq-laws', 'enum:random-eq-laws'],
        enums_thorough=['enum:random-eq-laws 3000'],
        design_ref='DESIGN.md section 4, C12',
        level_text=('Proof (Kani/CBMC, bit-precise, complete over all non-NaN f64): for the hand-written Eq/Hash/Ord/PartialOrd of Number '
                    '(unit-less, and with units drawn from {none, m, s}) and Coord: == is an equivalence and a clone equals its original; '
                    'equal values feed identical byte streams to any Hasher; cmp is antisymmetric, transitive and Equal exactly when == holds; '
                    'partial_cmp, when it answers, gives cmp\'s answer. '
                    'Proof (Verus) of the lifting through Value: the hand-written 18-arm Value::eq holds exactly when both values are of the same kind and '
                    'their payloads are equal (value_eq; kinds are disjoint under ==), with Ref compared by id only (real body), and Dict::partial_cmp is '
                    'always Some of the total order. Proof (Verus, unit u_hash) of the hashing half of the lifting: the real Value::hash feeds a Hasher '
                    'exactly value_hs(v) -- the payload\'s own stream for each of the 18 kinds, nothing for Marker / Remove / Na -- and the real Ref::hash feeds '
                    'the id only, never the display name; lemma_value_eq_hash then proves value_eq(a, b) ==> value_hs(a) == value_hs(b) for all values, given that '
                    'equal payloads feed equal streams (Kani for Number and Coord; assumed of std / chrono / rustc derives for the rest). The hand-written Dict::cmp is verified on its real body against dict_cmp (two empty dicts Equal, otherwise std\'s lexicographic order of the key sequences, then of the value sequences), and lemma_dict_cmp_eq proves it answers Equal exactly for dicts with the same keys bound to equal values (given that a lexicographic comparison is Equal exactly for pairwise Equal sequences). The hand-written order of Ref is under contract too: the real Ref::cmp is std\'s String order of the ids and Ref::partial_cmp is Some of it, so cmp answers Equal exactly when == holds (lemma_ref_cmp_eq) and display names play no part. The hand-written orders of Date, Time and DateTime are verified on their real bodies too: cmp is chrono\'s order of the wrapped value and partial_cmp is Some of exactly that order (arguments in the same positions), so the partial order always answers and gives the total order\'s answer. A failed value_hs clause '
                    'alone pins one of many legal hashing schemes, so it is reported as a violation only with a witness from the equality-law enumerators.'),
        not_decided=('the payload equalities of Str/Uri/Symbol/XStr (derived, delegate to String), Date/Time/DateTime (chrono), List/Dict/Grid (std Vec / BTreeMap) are '
                     'named but not decided (uninterpreted or assumed structural); antisymmetry and transitivity of Dict::cmp (inherited from std\'s lexicographic Iterator::cmp, assumed); the derived Ord of Value (assumed Equal exactly when == holds); the payload Hash impls other than Number / Coord / Ref (std, chrono, rustc derives: assumed to respect ==); the Hasher is an abstract byte sink (Hasher::finish is assumed to be a function of the bytes fed); rustc derives are assumed lexicographic/structural; '
                     'units other than the three sampled shapes (Unit::eq/hash compare all fields bitwise).'),
        technique='contract-based deductive verification: Kani complete symbolic harnesses over all f64 on the real trait impls + Verus postconditions on the real Value::eq, Value::hash and Ref::hash',
    ),
    'C02': dict(
        title='Hayson encode -> decode returns the original value',
        verus=[('u_getters', [r'^parse_ref$', r'^parse_symbol$', r'^parse_uri$', r'^parse_coord$', r'^parse_xstr$', r'^parse_date$', r'^parse_time$', r'^parse_datetime$', r'^parse_number$']),
               ('u_jenc', [r'::serialize$'], dict(one_spelling=True)),
               ('u_tz', [r'^is_utc$'])],
        kani=[dict(harness='k_json_visit_numbers', klass='complete', schema='raw', family='json-visit', target='JsonValueDecoderVisitor::visit_{i8..u64,f64}'),
              dict(harness='k_json_visit_bool_null', klass='complete', schema=['bool'], family=None, target='JsonValueDecoderVisitor::visit_bool/visit_unit'),
              dict(harness='k_json_number_exact', klass='complete', schema=['f64'], family='json-number', target='<Number as Serialize>::serialize'),
              dict(harness='k_json_number_unit_trace', klass='complete', schema=['f64'], family='json-number', target='<Number as Serialize>::serialize (with unit)', one_spelling=True)],
        witness=['enum:hayson-roundtrip', 'enum:random-values'],
        enums_thorough=['enum:random-values 400000'],
        design_ref='DESIGN.md section 4, C02',
        level_text=('Proof (Kani/CBMC, complete over all f64) of the number clause: the real <Number as Serialize>::serialize, run into a '
                    'recording Serializer, emits exactly one JSON number denoting the same f64 (integer form only when exact and not -0.0), '
                    'the Hayson string form for INF/-INF/NaN, and {_kind:number,val:<same f64>,unit:<symbol>} when a unit is present: '
                    'no finite number changes magnitude and no number changes kind. Reader side: the decoder visitor turns a JSON number of '
                    'every class serde_json hands over (i8..i64, u8..u64, f64 -- complete over each domain) into the unit-less Number with exactly that value. '
                    'Writer side of every other kind (Verus, u_jenc): each Serialize impl hands the serializer exactly the JSON tree jv_value(v) of the Hayson '
                    'specification -- every tag, cell, column and row, in order, nothing dropped (details under C05); is_utc is true exactly for the UTC zone, '
                    'so the tz member is written for every other zone.'),
        not_decided=('serde_json itself (text <-> call trace, 128-level recursion limit); Date/Time/DateTime text (chrono; kernel in C06); '
                     'the reader side of List/Dict/Grid (visit_map / visit_seq are generic over external traits); the decode helpers parse_* of decode.rs beyond ref/symbol/uri/coord; '
                     'typed Deserialize impls.'),
        technique='contract-based deductive verification: Kani complete symbolic harness over all f64 on the real Serialize impl with a recording Serializer',
    ),
    'C05': dict(
        title='Hayson JSON conforms to the Project Haystack JSON encoding',
        verus=[('u_getters', [r'^parse_ref$', r'^parse_symbol$', r'^parse_uri$', r'^parse_coord$', r'^parse_xstr$', r'^parse_date$', r'^parse_time$', r'^parse_datetime$', r'^parse_number$', r'^Dict::get_str$', r'^Dict::get_num$']),
               ('u_jenc', [r'::serialize$', r'^jv_'], dict(one_spelling=True)),
               ('u_jdec', [r'^JsonValueDecoderVisitor::visit_map$', r'^JsonValueDecoderVisitor::visit_seq$', r'^lemma_members_by_membership$', r'^lemma_kind_by_membership$', r'^lemma_no_kind$',
                           r'^lemma_perm_same_reading$', r'^lemma_object_members_in_any_order$'])],
        kani=[dict(harness='k_json_visit_numbers', klass='complete', schema='raw', family='json-visit', target='JsonValueDecoderVisitor::visit_{i8..u64,f64}'),
              dict(harness='k_json_visit_bool_null', klass='complete', schema=['bool'], family=None, target='JsonValueDecoderVisitor::visit_bool/visit_unit'),
              dict(harness='k_json_scalar_traces', klass='complete', schema=['u8', 'f64', 'f64'], family=None, target='Serialize for Marker/Na/Remove/Coord/Symbol/Uri/Ref/XStr', one_spelling=True),
              dict(harness='k_json_number_exact', klass='complete', schema=['f64'], family='json-number', target='<Number as Serialize>::serialize'),
              dict(harness='k_json_number_unit_trace', klass='complete', schema=['f64'], family='json-number', target='<Number as Serialize>::serialize (with unit)', one_spelling=True)],
        witness=['enum:hayson-roundtrip', 'enum:hayson-reference', 'enum:random-values', 'enum:random-hayson-spellings'],
        enums_thorough=['enum:random-values 400000', 'enum:random-hayson-spellings 400000'],
        design_ref='DESIGN.md section 4, C05',
        level_text=('Proof (Verus, unbounded) of the writer side for every kind: jv_value is the Hayson table written from the specification as a '
                    'recursive function from values to JSON trees (null/bool/string as plain JSON; {"_kind":"marker"|"na"|"remove"}; ref with val and '
                    'optional dis; uri/symbol/date/time with val; dateTime with val and, exactly when the value is not UTC, tz; coord with lat/lng; '
                    'xstr with type/val; list as array; dict as object; grid with _kind, meta (an empty object when absent), cols (name, meta only '
                    'when present) and rows), and the real body of every Serialize impl -- Marker, Na, Remove, Ref, Uri, Symbol, Date, Time, DateTime, '
                    'Coord, XStr, Column, Dict, Grid and the Value dispatcher with its list loop -- is proved to hand exactly that tree to the '
                    'serializer, member by member and in order, against a model of serde\'s data model (rule R20). '
                    'Reader side, objects (Verus, u_jdec): the real visit_map reads the members one by one into a map and remembers the text of _kind; what it '
                    'returns is the value denoted by that kind and that member map (hs_decode), and lemma_object_members_in_any_order shows that for an object '
                    'with distinct member names every order of the members gives the same kind and the same map, hence the same value; visit_seq returns the list of all array elements in order. '
                    'Proof (Kani/CBMC) of the writer side for scalars: the serializer call trace of Marker, NA, Remove, Coord (all f64), '
                    'Symbol, Uri, Ref (with and without dis), XStr and Number (all f64, with and without unit) uses exactly the "_kind" '
                    'values and member names of the Hayson table (typed into the harness from the specification), in a map of the stated size. '
                    'Reader side (Verus, real bodies): parse_ref / parse_symbol / parse_uri / parse_coord succeed exactly when the members the '
                    'table requires (val; lat and lng) are present with the right kind, and build the value from exactly those members (dis optional).'),
        not_decided=('Reader side: the per-kind decoders behind visit_map other than ref/symbol/uri/coord are uninterpreted functions of the member map; objects with a repeated member name; parse_grid (iterator adapters with capturing closures); the chrono parsers behind parse_date/time/datetime are uninterpreted functions of the text (the decoders are proved to read the right members and, for dateTime, to use tz exactly when it is present); '
                     'Date/Time/DateTime text (chrono, uninterpreted); JSON number spellings and string escaping (serde_json); Number::serialize is '
                     'trusted in the Verus unit and decided by the Kani harnesses; the model serializer (what serialize_map / serialize_entry / '
                     'serialize_seq / end do) is an assumption about serde; Kani payload strings are concrete 2-byte strings.'),
        technique='contract-based deductive verification: Verus postconditions on the real Serialize impls against a recursive Hayson specification + Kani harnesses with a recording Serializer',
    ),
    'C07': dict(
        title='Filter evaluation follows the Haystack filter semantics',
        verus=[('u_resolver', [r'^Dict::resolve_for$', r'^Path::', r'^lemma_walk_null_stays$', r'^Value::is_null$', r'^Grid::filter_all$', r'^Grid::filter$']),
               ('u_feval', [r'^(Filter|Or|And|Term|Parens|Has|Missing|Cmp)::eval$', r'^lemma_all_terms_false$', r'^lemma_any_and_true$', r'^Value::has_value$', r'^ev_|^any_and$|^all_terms$']),
               ('u_fgram', [r'^Parser::(parse|parse_or|parse_and|parse_term|parse_parens|parse_nested_parens)$', r'^lemma_join_'], dict(beyond_property='the token-grammar contract also rejects a parser that starts to accept text which is not a filter, about which the property is silent'))],
        kani=[dict(harness='k_cmp_eq', klass='complete', schema='raw', family='filter-cmp:eq', target='filter::nodes::cmp_values(Eq)', timeout=400),
              dict(harness='k_cmp_ne', klass='complete', schema='raw', family='filter-cmp:ne', target='filter::nodes::cmp_values(NotEq)', timeout=400),
              dict(harness='k_cmp_lt', klass='complete', schema='raw', family='filter-cmp:lt', target='filter::nodes::cmp_values(LessThan)', timeout=400),
              dict(harness='k_cmp_le', klass='complete', schema='raw', family='filter-cmp:le', target='filter::nodes::cmp_values(LessThanEq)', timeout=400),
              dict(harness='k_cmp_gt', klass='complete', schema='raw', family='filter-cmp:gt', target='filter::nodes::cmp_values(GreatThan)', timeout=400),
              dict(harness='k_cmp_ge', klass='complete', schema='raw', family='filter-cmp:ge', target='filter::nodes::cmp_values(GreatThanEq)', timeout=400),
              dict(harness='k_cmp_lt_bool_literal', klass='complete', schema=None, family=None, target='filter::nodes::cmp_values(LessThan) vs Bool literal', timeout=400)],
        witness='enum:filter-eval',
        enums_thorough=['enum:filter-eval-exhaustive'],
        design_ref='DESIGN.md section 4, C07',
        level_text=('Proof (Kani/CBMC, complete over the 7 heap-free kinds x all non-NaN f64, one harness per operator) of the comparison '
                    'kernel cmp_values with the real PartialEq/PartialOrd of Value: a comparison holds only if the tag has a value; '
                    '< <= > >= hold only for a value of the literal\'s kind ordered as stated; == iff equal; != iff a value that is not equal. '
                    'Proof (Verus, unit u_feval, every filter tree and every context) of the evaluator itself against a recursive specification written from the filter language: Or::eval holds iff some operand holds, And::eval iff all do, Parens::eval is its inner or, tag / not tag test whether the resolved value is non-Null / Null, and a comparison is the kernel applied to the resolved value and the literal (Iterator::any / all rewritten to index loops by rule R23; ^symbol, *== and relation terms are uninterpreted functions of the term and the context). Proof (Verus, all dicts and paths) of path resolution by the default resolver: a->b->c looks each segment up in the dict the '
                    'previous segments resolve to, and a missing tag, a Null or a non-dict value anywhere along the path gives Null; and of '
                    'Grid::filter_all: it returns exactly the rows for which the filter holds, in order. Precedence and grouping (Verus, unit u_fgram, every input): '
                    'the real parse_or / parse_and / parse_term / parse_parens consume exactly the token spelling of the tree they return -- an or of ands of terms, '
                    'a group between parentheses -- so the tree that is evaluated has `and` binding tighter than `or` and parentheses grouping.'),
        not_decided=('caller-supplied resolvers and Ref chains; '
                     '^symbol and relationship terms (namespace, C13); string/ref/date literals and list tags in the kernel (heap values '
                     'make CBMC runs unbounded in time: a two-element list harness did not finish in 20 min); '
                     'a NaN tag value in the kernel (left to the enumerator enum:filter-eval, which has NaN tags and lists holding NaN). NaN literals are excluded (not expressible in filter text; derive(PartialOrd) '
                     'orders NaN differently on the repository toolchain and on Kani\'s nightly).'),
        technique='contract-based deductive verification: Kani complete symbolic harnesses on the real comparison kernel',
    ),
    'C06': dict(
        title='Timestamps keep their instant and zone',
        verus=[('u_tz', [r'^is_utc$']),
               ('u_zparse', [r'^parse_time_zone$', r'^parse_time_zone_name$']),
               ('u_enc', [r'^DateTime::to_zinc$'], dict(one_spelling=True)),
               ('u_jenc', [r'^DateTime::serialize$'], dict(one_spelling=True)),
               ('u_getters', [r'^parse_datetime$']),
               ('u_capi', [r'^haystack_value_get_datetime_date$', r'^haystack_value_get_datetime_time$'])],
        kani=[dict(harness='k_fixed_tz_utc_iff_zero', klass='complete', schema='raw', family='fixed-tz', target='timezone::fixed_timezone', timeout=600)],
        witness=['enum:hayson-roundtrip', 'enum:zinc-escape', 'enum:rfc3339-offsets', 'enum:zones'],
        design_ref='DESIGN.md section 4, C06',
        level_text=('Proof (Kani/CBMC, complete over every offset text +-HH:MM with digits 0-9 0-9 : 0-5 0-9) for the one piece of this '
                    'property that is libhaystack\'s own code: fixed_timezone maps an RFC 3339 offset to the zone UTC exactly when the offset is '
                    'zero, so no non-zero offset is silently read as UTC. Proof (Verus) of the glue around chrono: is_utc holds exactly when the zone '
                    'of the timestamp is the UTC zone (not when its offset merely happens to be zero); the Zinc writer appends the zone name and the '
                    'Hayson writer the tz member exactly when is_utc is false; the C getters return the UTC or the local date / time as their flag asks; '
                    'the Zinc reader parse_time_zone, on its real body, turns the offset text +HH:MM / -HH:MM into FixedOffset::east_opt / west_opt of exactly '
                    'HH*3600 + MM*60 seconds (each of the six bytes validated, string slices proved in range), and yields no fixed offset for Z.'),
        not_decided=('Everything inside chrono/chrono_tz (RFC 3339 parsing, zone database, DST resolution, with_timezone) -- which is where '
                     '"both sides of every DST transition, all ~600 zones" lives; that the Etc/GMT name carries both hour digits and that '
                     'offsets with minutes are rejected (the name goes through format!, which CBMC does not finish: 15 min for the full '
                     'domain, 10 min for +HH:00 only); find_timezone\'s prefix search; the C API constructors.'),
        technique='contract-based deductive verification: Kani complete symbolic harness over the fixed-format offset strings + Verus postconditions on the real glue functions around chrono',
    ),
    'C15': dict(
        title='Every database unit is found by each of its names and survives both codecs',
        verus=[('u_units', [r'^lemma_units_table_chunk_', r'^lemma_unit_ids_bound_chunk_', r'^lemma_table_keys_are_ids_chunk_']),
               ('u_zparse', [r'^parse_unit$', r'^is_unit_char$', r'^parse_number$']),
               ('u_getters', [r'^parse_number$'])],
        kani=[dict(harness='k_unit_char_class', klass='complete', schema='raw', family='enum:units-roundtrip', target='zinc number::is_unit_char'),
              dict(harness='k_scanner_classes', klass='complete', schema=['u8'], family=None, target='Scanner::is_*')],
        witness='enum:units-roundtrip',
        design_ref='DESIGN.md section 4, C15',
        level_text=('Proof over the unit table extracted mechanically from units_generated.rs on every run (Verus by(compute)): the '
                    'identifiers bound in the UNITS map are pairwise distinct (strictly increasing when sorted), every identifier of every '
                    'Unit literal is a key bound to that very literal, every key is one of the identifiers of the unit it is bound to, and '
                    'every identifier consists of unit bytes only and cannot be mistaken for an exponent by the Zinc number lexer; the unit '
                    'byte class itself is proved equal to the real is_unit_char over all 256 bytes (Kani, complete).'
                    ' Both decoders are proved to look the unit up by the text they read, unmodified: the Zinc parse_number by exactly the maximal run of unit bytes after the digits, the Hayson parse_number by the unit member verbatim (and it fails when that names no unit).'),
        not_decided=('HashMap::get returns the value inserted for an equal key and None otherwise (assumed: this is the whole of the third '
                     'sentence); lazy_static initialisation; the magnitudes (f64 text, C01).'),
        technique='contract-based deductive verification: Verus by(compute) lemmas over the mechanically extracted table + Kani complete byte-class harness',
    ),
    'C16': dict(
        title='Unit conversion and Number arithmetic are dimensionally sound',
        verus=[('u_units', [r'^lemma_unit_dims_bounded_chunk_'])],
        kani=[dict(harness='k_convert_guard', klass='complete', schema=None, family=None, target='Unit::convert_to', timeout=300),
              dict(harness='k_dims_add_sub', klass='complete', schema=['i8'] * 14, family=None, target='UnitDimensions +/-'),
              dict(harness='k_number_add_sub', klass='complete', schema=['u8', 'u8', 'f64', 'f64'], family='number-units', target='Number +/-', timeout=600),
              dict(harness='k_convert_offsets', klass='bounded', bound='both scales fixed to 1.0 (the full formula with symbolic scales does not finish: float division)',
                   schema=None, family=None, target='Unit::convert_to formula, offset part', timeout=900)],
        witness='enum:unit-convert',
        design_ref='DESIGN.md section 4, C16',
        level_text=('Proof of the guards and the dimension bookkeeping: Unit::convert_to succeeds exactly when both units have the same '
                    'dimensions or both are byte units (Kani, complete over all dimension vectors); UnitDimensions + and - are the '
                    'component-wise sum/difference without overflow for exponents in [-63,63] (Kani), and every database unit has exponents '
                    'in [-8,8] (Verus by(compute) over the extracted table); Number + and - keep the common unit, treat a unit-less operand '
                    'as neutral and fail exactly for two different units (Kani, all moderate finite f64 x {none,m,s}).'),
        not_decided=('"equals the physical conversion" for general scales and "converting back returns the original within rounding" (floating-point error '
                     'analysis: the formula harness with symbolic scales does not finish in CBMC (600 s) and Verus cannot discharge float preconditions; '
                     'with both scales fixed to 1.0 the offset part is checked bit-for-bit, as a bounded stand-in); Mul/Div results '
                     '(match_units iterates the lazy_static HashMap with closures); approx_eq symmetry (float division, did not finish in 500 s).'),
        technique='contract-based deductive verification: Kani complete symbolic harnesses + Verus by(compute) table lemma',
    ),
    'C04': dict(
        title='Zinc text conforms to the Project Haystack grammar in both directions',
        verus=[('u_zparse', [r'^parse_str_escape$', r'^parse_str_unicode_escape$', r'^parse_str$', r'^Lexer::read$', r'^parse_literal$', r'^parse_id$', r'^lemma_lit_run_bytes$', r'^parse_unit$', r'^is_unit_char$', r'^parse_uri$', r'^parse_time_zone$']),
               ('u_enc', [r'^write_quoted_str$', r'^write_str$', r'::to_zinc$', r'::zinc_encode$', r'^list_to_zinc$', r'^write_dict_tags$', r'^Column::to_zinc$', r'^Dict::to_zinc$', r'^Grid::to_zinc$', r'^Value::to_zinc$', r'^enc_(value|items|tag|tags|meta|col|cols|cells|rows|grid)$', r'^grid_head$', r'^grid_mid$', r'^dict_find$'], dict(one_spelling=True)),
               ('u_zgram', [r'^Parser::parse_value$', r'^Parser::parse_nested_value$', r'^parse_list$', r'^parse_dict$', r'^parse_dict_parts$', r'^RowParser::parse_row$', r'^RowParser::consume_end$', r'^parse_nested_grid_end$', r'^parse_grid_ver$', r'^parse_grid_meta$', r'^lemma_(li|di|ri)_push$', r'_prefix$'], dict(beyond_property='the token-grammar contract also rejects a decoder that starts to accept text which is not a Zinc sentence, about which the property is silent'))],
        kani=[dict(harness='k_scanner_classes', klass='complete', schema=['u8'], family=None, target='Scanner::is_* byte classes'),
              dict(harness='k_unit_char_class', klass='complete', schema=['u8'], family=None, target='zinc number::is_unit_char'),
              dict(harness='k_u8_classes', klass='complete', schema=['u8'], family=None, target='u8::is_ascii_*')],
        witness=['enum:zinc-escape', 'enum:zinc-spellings', 'enum:zinc-reference', 'enum:random-values', 'enum:random-spellings'],
        enums_thorough=['enum:random-values 400000', 'enum:random-spellings 400000'],
        design_ref='DESIGN.md section 4, C04',
        level_text=('Proof, per token class, against the Project Haystack Zinc grammar (the oracle is the grammar, not the code): Verus '
                    'proves one clause per string escape letter of parse_str_escape (\\b U+0008, \\f U+000C, \\n, \\r, \\t, \\", \\\\, \\$) '
                    'on the real body; Kani proves, over all 256 byte values on the real scanner methods, that every character class the '
                    'reader uses (spaces, newlines, digits, hex digits, id/ref/symbol/unit/zone alphabets, exponent and sign sets) is '
                    'the byte set written in the contracts; \\uXXXX consumes four hex digits and denotes that UTF-16 unit (U+FFFD for a lone surrogate); a string literal denotes str_body of its bytes. Verus also proves on the real bodies that a literal / identifier / unit is exactly '
                    'the maximal run of its class at the head of the input (nothing else consumed), and that a capitalised literal not '
                    'followed by ( is decoded by the keyword table of the grammar: M R T F N NA NaN INF, anything else is an error. Writer side: '
                    'the keyword writers emit M R NA T F and the quoted-string writer emits " + enc(s) + " with enc written from the grammar. '
                    'Composite layout: a recursive specification enc_value of the grammar\'s list, dict and grid productions (commas between items and none '
                    'after the last, name[:value] tags with the value omitted for markers, a ver:"<the version the grid carries>" line, space-separated meta, column line, one line '
                    'per row with an empty cell for an absent tag (N in a single-column grid, where an empty line would end the grid), empty marker for a grid without rows, << >> around a nested grid and only there) is '
                    'proved to be exactly what the real List/Dict/Grid/Column/Value writers emit, for every value tree, with nested values always '
                    'written in inner-grid mode; DateTime is RFC 3339 text followed by a space and the zone name exactly when the value is not UTC. '
                    'Reader side of lists and dicts, token level (u_zgram, every input): the real parse_value / parse_nested_value / parse_list / parse_dict / '
                    'parse_dict_parts are proved to return a value denoted by a parse tree whose tokens are exactly the tokens they consumed -- a list is [ items '
                    'and commas ] and its elements are what the items denote, in order, none dropped or duplicated; a dict is { tags and commas } and is the empty '
                    'dict with each tag inserted in the order written, with the value its own parse tree denotes, or Marker when no value is written; a scalar token '
                    'denotes its value and the end of input Null. Grid parts, same unit: the version line is the identifier ver, a colon and a Str token whose '
                    'text is the version returned; the grid meta is a run of tags read exactly as inside a dict; a row is cells and commas up to a newline -- the '
                    'k-th comma moves to column k, each cell is inserted under the name of the column it stands in with the value its parse tree denotes, a '
                    'column without a cell gets no tag, a cell beyond the last column is an error (real bodies of parse_grid_ver, parse_grid_meta, '
                    'RowParser::parse_row, consume_end, parse_nested_grid_end). The lexer is seen through its contract there (proved on the real lexer in '
                    'u_zparse) plus a history variable for the tokens read; the column line and the assembly of the grid (parse_grid_columns, parse_grid_content, '
                    'the row iterator) are not under a grammar contract.'),
        not_decided=('number spelling '
                     '(the string handed to str::parse::<f64>); the text core::fmt / chrono produce for numbers, dates, times, coordinates and the '
                     'capitalised XStr type (uninterpreted functions of the value); the column line of a grid and the assembly of a grid from its parts '
                     '(parse_grid_columns silently skips a column name that is followed by a non-identifier token, so no contract of the form "the result spells '
                     'the tokens read" holds for it; proved panic-free and terminating only; that commas appear only where the grammar allows them is '
                     'not part of the list/dict statement; the bounded enumerator enum:zinc-spellings checks 43 '
                     'alternative spellings -- number forms, \\u escapes, list/dict separators, CRLF line endings incl. at end of input, nested grids -- '
                     'against the plain spelling of the same value; the bounded enumerator enum:zinc-reference hands the text written for 103 scalar and composite '
                     'values to an independent reader written from the grammar inside the replay crate -- strict about brackets, separators, quotes, parentheses and '
                     'the line structure of grids -- and demands the value back: this is what turns a failed writer obligation into a violation when the new '
                     'spelling is not a sentence, and into undecided when it is another legal spelling; enum:random-spellings is the converse: an independent writer '
                     'spells seeded random values in a random legal spelling -- exponent and plain number forms, \\uXXXX escapes in either case, separators with and '
                     'without spaces, trailing commas, marker tags with and without :M, LF and CRLF -- and the decoder must return the value, 1500 values per run and '
                     '400 000 in the thorough tier); Dict is seen through its entry list in key order. The unit class tests `> 128`, i.e. excludes '
                     'byte 0x80 that the grammar admits -- harmless: no database unit contains it (C15 lemma).'),
        technique='contract-based deductive verification: Verus per-letter postconditions on the real body + Kani complete byte-class harnesses',
    ),
    'C10': dict(
        title='Encoders never panic on any constructible value',
        verus=[('u_enc', [r'::to_zinc$', r'::zinc_encode$', r'^list_to_zinc$', r'^write_dict_tags$', r'^write_str$', r'^write_quoted_str$', r'^Error::<From<std::io::Error>>::from$', r'^InnerGrid::'], dict(one_spelling=True)),
               ('u_jenc', [r'::serialize$'], dict(one_spelling=True))],
        kani=[dict(harness='k_json_number_exact', klass='complete', schema=['f64'], family='json-number', target='<Number as Serialize>::serialize (panic-free over all f64)'),
              dict(harness='k_zinc_keywords', klass='complete', schema=['u8'], family=None, target='to_zinc of Marker/Remove/Na/Bool')],
        witness=['enum:zinc-encode-panics', 'enum:random-values'],
        enums_thorough=['enum:random-values 400000'],
        design_ref='DESIGN.md section 4, C10',
        level_text=('Proof (Verus, unbounded, no precondition on the value): the scalar Zinc writers -- Marker, Remove, NA, Bool, Number, '
                    'Date, Time, DateTime, Str, Ref, Symbol, XStr, Coord, the shared quoted-string writer -- and the collection writers List, Dict, Grid '
                    '(incl. zero columns with rows, zero rows, nested grids), Column, write_dict_tags and the recursive Value dispatcher return Ok and cannot panic '
                    'for any field values (every String ranges over all strings incl. empty and non-ASCII); string slicing, where it occurs, '
                    'carries std\'s panic condition as a precondition (rule R13). The Hayson Serialize impls of every kind except Number are proved panic-free on their real bodies (u_jenc). Kani: Number::serialize (Hayson) is panic-free over all f64.'),
        not_decided=('the collection writers '
                     'are proved on index loops obtained from their enumerate() loops by rule R19 (trusted: Enumerate over a slice iterator yields (i, &v[i])); Display/to_string wrappers; the serializer behind the Serialize impls (serde_json); core::fmt itself (assumed not to fail or panic for the literals used); recursion depth.'),
    ),
    'C17': dict(
        title='The C API behaves exactly like the Rust API on the same values',
        verus=[('u_capi', [r'^haystack_value_', r'^haystack_filter_'])],
        kani=[],
        witness=['enum:capi-list', 'enum:random-capi'],
        enums_thorough=['enum:random-capi 100000'],
        design_ref='DESIGN.md section 4, C17',
        level_text=('Proof (Verus, under extraction rule R10 which turns the pointer protocol into types) for 80 of the extern "C" functions. '
                    'Constructors (marker, na, remove, bool, number, coord, list): the handle holds exactly the value the Rust constructor makes; the string constructors (str, ref, ref with dis, uri, symbol) hold the value built from the text of the C string and return no handle for null or invalid UTF-8 (CStr::from_ptr is proved never to be applied to null). '
                    'Kind tests (all 18 haystack_value_is_*): the Rust predicate on a live handle, false on a null one. Scalar getters (coord lat/long, '
                    'number value / has_unit, dict / grid / str length, date year/month/day, time hour/minutes/seconds/millis): the component of the '
                    'wrapped value, and the documented sentinel (NaN, usize::MAX, u32::MAX, ERR) for a null handle or a handle of another kind. '
                    'get_datetime_date / get_datetime_time: the UTC or the local date / time as the flag asks, written into the result handle, which is '
                    'left unchanged on failure. get_grid_row_at: the index-th row as a Dict value, ERR and an unchanged result out of range. insert_dict_entry / remove_dict_entry behave as insert / remove on the map the handle wraps and leave it unchanged on failure; get_list_entry_at / get_dict_entry hand out a pointer to the stored entry (a missing key is FALSE, not an error), the out-parameter being modelled as a slot for a borrowed reference. The string getters (str, uri, symbol, ref value / dis, xstr type / value, number unit, timestamp zone) return a fresh C string holding exactly the bytes of the field, and null for another kind, a null handle or text with an interior NUL; the length getters return the byte length. The codec entry points (to / from Zinc and JSON text, filter parse, filter match on a dict, first match in a grid) return what the Rust codec, parser or evaluator returns on the same value or text. '
                    'The list part: '
                    'haystack_value_get_list_len / push_list_entry / set_list_entry_at / remove_list_entry_at behave as len / push / update / '
                    'remove on the sequence the handle wraps, return TRUE exactly in those cases, and on every failure (wrong kind, null entry, '
                    'index out of range) return the sentinel and leave the handle unchanged. Each call is verified for every handle state, so '
                    'any finite sequence of these calls is covered by induction.'),
        not_decided=('R10 assumes handles are live and unaliased (the ownership protocol of C18) and that a mutated handle is non-null; that the error message is retrievable through last_error_message (thread-local); make_xstr, the grid constructors, get_dict_keys and filter_match_all_grid (iterator adapters), the two timestamp constructors (iterator adapters over chrono values), the two destroy functions and last_error_message -- 11 of the 91 extern "C" functions. chrono accessors, the Rust codecs and the filter evaluator appear as uninterpreted functions (distinct names for distinct functions): the contracts decide that the C function calls the right Rust operation on the right arguments and reports its outcome by the documented sentinel.'),
    ),
    'C11': dict(
        title='Re-encoding is stable; stream decoding equals buffer decoding',
        verus=[('u_zparse', ZDEC_FUNCS)],
        kani=[dict(harness='k_reader_chunks_small', klass='bounded', bound='2-byte stream, <= 1 Interrupted result, symbolic chunk lengths',
                   target='Scanner::make / read_byte (reader contract)', timeout=600),
              dict(harness='k_reader_chunks', klass='bounded', bound='3-byte stream, <= 2 Interrupted results, symbolic chunk lengths',
                   target='Scanner::make / read_byte (reader contract)', timeout=1500, thorough_only=True),
              dict(harness='k_json_number_exact', klass='complete', schema=['f64'], family='json-number', target='<Number as Serialize>::serialize (re-encoding a decoded number denotes the same f64)')],
        witness='zinc', enums=['enum:stream-chunks', 'enum:reencode-stable', 'enum:lazy-rows', 'enum:random-values', 'enum:random-chunks'],
        enums_thorough=['enum:random-values 400000', 'enum:random-chunks 100000'],
        design_ref='DESIGN.md section 4, C11',
        level_text=('Proof (Verus) of the second sentence only, as a frame argument: in the extracted decoder the reader is an opaque token '
                    'that only Scanner::make and read_byte can touch; every other function of the scanner, lexer and parsers -- including the '
                    'lazy row iterator and parse_grid, whose extracted body is checked to still be collect(RowIterator) -- is verified against '
                    'the reader *contract* (one byte at a time, in order, EOF only at the end), so nothing above read_byte can observe how the '
                    'reader chunks its bytes: decoding is a function of the byte sequence and the position of the first I/O error. The '
                    'contract itself is cross-checked on the real make/read_byte by a bounded Kani harness with symbolic chunking.'),
        not_decided=('(1) decode-encode-decode = decode is not proved for all accepted texts (it needs C01 for every value in the decoder\'s image); '
                     'what stands in: Kani proves over all f64 that the Hayson number writer emits a JSON number denoting exactly the value, and the '
                     'bounded enumerator enum:reencode-stable re-encodes ~150 accepted texts in alternative spellings plus the three corpus files shipped '
                     'with the repository (Zinc and Hayson) and demands value equality after one pass and a textual fixed point after it. '
                     '(3) that the lazy iterator consumes no further than the first token after a row is checked by the bounded enumerator '
                     'enum:lazy-rows only (a byte-counting reader over 24 grids, 8 shapes of first cell); a proof would need a token-level ghost trace '
                     'of the lexer. The reader contract for streams longer than the Kani bound is the documented behaviour of read_exact on a 1-byte buffer.'),
    ),
    'C01': dict(
        title='Zinc encode -> decode returns the original value',
        verus=[('u_zparse', [r'^lemma_keyword_roundtrip$', r'^Lexer::read$', r'^parse_literal$', r'^parse_str_escape$', r'^lemma_lit_run_bytes$',
                             r'^parse_str$', r'^parse_str_unicode_escape$', r'^lemma_str_body_plain$', r'^lemma_hex4_value$', r'^lemma_str_body_char$',
                             r'^lemma_str_body_enc$', r'^lemma_str_roundtrip$', r'^parse_ref$', r'^lemma_ref_run_prefix$', r'^lemma_ref_roundtrip$', r'^parse_uri$', r'^lemma_uri_body_plain$', r'^lemma_uri_body_char$', r'^lemma_uri_body_enc$', r'^lemma_uri_roundtrip$', r'^parse_symbol$', r'^lemma_symbol_roundtrip$', r'^parse_xstr_body$', r'^lemma_lit_run_prefix$', r'^lemma_xstr_roundtrip$']),
               ('u_enc', [r'^write_quoted_str$', r'^Str::to_zinc$', r'^Ref::to_zinc$', r'^Uri::to_zinc$', r'^Symbol::to_zinc$', r'^XStr::to_zinc$', r'^lemma_str_escape_inverse$', r'^Marker::to_zinc$', r'^Remove::to_zinc$', r'^Na::to_zinc$', r'^Bool::to_zinc$', r'^Number::to_zinc$'], dict(one_spelling=True)),
               ('u_zgram', [r'^Parser::parse_value$', r'^Parser::parse_nested_value$', r'^parse_list$', r'^parse_dict$', r'^parse_dict_parts$', r'^RowParser::parse_row$', r'^parse_grid_ver$', r'^parse_grid_meta$'], dict(beyond_property='the token-grammar contract also rejects a decoder that starts to accept text which is not a Zinc sentence, about which the property is silent'))],
        kani=[dict(harness='k_zinc_keywords', klass='complete', schema=['u8'], family=None, target='to_zinc of Marker/Remove/Na/Bool')],
        witness=['enum:zinc-roundtrip-scalars', 'enum:zinc-escape', 'enum:random-values'],
        enums_thorough=['enum:random-values 400000'],
        design_ref='DESIGN.md section 4, C01',
        level_text=('Proof of decode(encode(v)) == v for two families of values. (1) Strings, all of them (every Unicode string incl. controls, quotes, '
                    'backslash, $, astral planes): Verus proves on the real write_quoted_str (= Str::to_zinc) that the output is " + enc(s) + " with '
                    'enc written from the grammar; on the real parse_str / parse_str_escape / parse_str_unicode_escape that the result is the '
                    'UTF-8 decoding of str_body(bytes after the opening quote), a byte-level spec of a string body; on the real Lexer::read that '
                    'a token starting with a quote is that Str; and lemma_str_roundtrip proves utf8_decode(str_body(enc(s) + " + anything)) == s. '
                    '(1b) Refs with and without display name: Ref::to_zinc emits @id [space "enc(dis)"], parse_ref reads @ + the maximal run of '
                    'ref bytes as the id and a following space-quote as a Zinc string display name, and lemma_ref_roundtrip composes them for '
                    'every id over the ref alphabet and every display name. '
                    '(1c) Uris: Uri::to_zinc emits backtick + enc_uri_body + backtick (backtick and backslash escaped, every other character as '
                    'itself), parse_uri returns utf8_decode(uri_body(bytes after the backtick)) on its real body, and lemma_uri_roundtrip composes them '
                    'for every Uri without C0 control characters (which the writer drops; the property excludes them). '
                    '(1d) Symbols: ^ + value on the writer side, ^ + the maximal run of ref bytes starting with a lower-case letter on the reader side, '
                    'lemma_symbol_roundtrip for every such symbol. '
                    '(1e) XStr: XStr::to_zinc emits the type with its first character upper-cased, then ("value") with the value as a Zinc string; '
                    'parse_literal reads the maximal run of [A-Za-z0-9_] as the type and parse_xstr_body the quoted value; lemma_xstr_roundtrip '
                    'composes them for every capitalised identifier type and every value string. '
                    '(2) Keyword-valued scalars (Marker, Remove, NA, true, false; Null on the reader side): the real writers emit M R NA T F '
                    '(Verus after rule R18, and Kani), Lexer::read maps a capitalised literal through the grammar\'s keyword table, and '
                    'lemma_keyword_roundtrip composes them.'),
        not_decided=('token level: Lexer::read is proved to return, for a token starting with a quote, backtick, ^, @ or a capitalised literal followed by (, '
                     'exactly the Str / Uri / Symbol / Ref / XStr its scalar parser denotes (Uri and XStr clauses assume an empty peek stash); numbers, dates and coordinates are not decided; '
                     'the Uri reader clause, like the Ref one, assumes an empty peek stash at the start of the token; '
                     'the Ref reader clause assumes an empty peek stash at the start of the token (true after every token the lexer produces, not proved); Number, Coord, Date, Time, DateTime (core::fmt / chrono text); List, Dict and Grid '
                     'layout on the reader side; nesting. Assumed: the UTF-8 axioms of strspec.vt, the two core::fmt helper contracts used by '
                     'the string writer (\\u{:04x} of a code point, {} of one character), u16::from_str_radix and String::from_utf16_lossy. '
                     'The writer side of List, Dict and Grid layout is proved against the grammar (C04); their reader side is proved total only.'),
        technique='contract-based deductive verification: Verus postconditions on the real lexer + Kani complete harness on the real keyword writers',
    ),
}
