use vstd::prelude::*;
use std::borrow::Cow;
verus! {
#[verifier::external_body] pub struct Dict { _p: u8 }
pub struct Str { pub value: String }
pub struct Ref { pub value: String, pub dis: Option<String> }
pub enum Value { Null, Str(Str), Ref(Ref), Other }

pub uninterp spec fn dget(d: Dict, k: Seq<char>) -> Option<Value>;
impl Dict {
    #[verifier::external_body]
    pub fn get(&self, k: &str) -> (r: Option<&Value>)
        ensures r is Some <==> dget(*self, k@) is Some, r is Some ==> *r->Some_0 == dget(*self, k@)->Some_0
    { unimplemented!() }
}
pub uninterp spec fn via(tag: int, v: Value) -> Seq<char>;
#[verifier::external_body]
pub fn decode_str_from_value<'a>(val: &'a Value) -> (r: Cow<'a, str>) { unimplemented!() }
#[verifier::external_body]
pub fn dis_macro_call<'a, F: Fn(&str) -> Option<Cow<'a, str>>>(pattern: &'a String, dict: &'a Dict, get_localized: &'a F) -> (r: Cow<'a, str>) { unimplemented!() }
#[verifier::external_body]
pub fn cow_borrowed<'a>(s: &'a String) -> (r: Cow<'a, str>) { unimplemented!() }
#[verifier::external_body]
pub fn cow_empty<'a>() -> (r: Cow<'a, str>) { unimplemented!() }

pub uninterp spec fn branch<'a>(r: Cow<'a, str>) -> int;

pub fn dict_to_dis<'a, GetLocalizedFunc>(
    dict: &'a Dict,
    get_localized: &'a GetLocalizedFunc,
    def: Option<Cow<'a, str>>,
) -> (r: Cow<'a, str>)
where
    GetLocalizedFunc: Fn(&str) -> Option<Cow<'a, str>>,
{
    if let Some(val) = dict.get("dis") {
        return decode_str_from_value(val);
    }

    if let Some(val) = dict.get("disMacro") {
        return if let Value::Str(val) = val {
            dis_macro_call(&val.value, dict, get_localized)
        } else {
            decode_str_from_value(val)
        };
    }

    if let Some(val) = dict.get("disKey") {
        if let Value::Str(val_str) = val {
            if let Some(val_str) = get_localized(&val_str.value) {
                return val_str;
            }
        }
        return decode_str_from_value(val);
    }

    if let Some(val) = dict.get("name") {
        return decode_str_from_value(val);
    }

    if let Some(val) = dict.get("id") {
        return if let Value::Ref(val) = val {
            cow_borrowed(val.dis.as_ref().unwrap_or(&val.value))
        } else {
            decode_str_from_value(val)
        };
    }

    def.unwrap_or(cow_empty())
}
} // verus!
fn main() {}
