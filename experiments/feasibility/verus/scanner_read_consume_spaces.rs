use vstd::prelude::*;
use std::io::{Error, ErrorKind};
verus! {

#[verifier::external_type_specification]
#[verifier::external_body]
pub struct ExError(std::io::Error);

#[verifier::external_body]
pub struct ReaderTok { pub _p: u8 }

pub struct Scanner {
    pub input: ReaderTok,
    pub cur: u8,
    pub next: Option<Vec<u8>>,
    pub last_peek: u8,
    pub is_eof: bool,
    pub pos: u64,
    pub line: usize,
}

pub uninterp spec fn rem(r: ReaderTok) -> nat;

impl Scanner {
    pub open spec fn buffered(&self) -> nat {
        match self.next { Some(v) => v@.len(), None => 0 }
    }
    pub open spec fn measure(&self) -> nat {
        self.buffered() + rem(self.input) + (if self.is_eof { 0nat } else { 1nat })
    }
    pub open spec fn wf(&self) -> bool {
        (self.next is Some ==> self.next->Some_0@.len() > 0)
        && (self.is_eof ==> rem(self.input) == 0)
        && self.pos + self.buffered() + rem(self.input) < u64::MAX && self.line + self.buffered() + rem(self.input) < usize::MAX
    }

    #[verifier::external_body]
    pub fn is_space(&self) -> (r: bool)
        ensures r == (self.cur == 32 || self.cur == 9)
    {
        " \t".as_bytes().contains(&self.cur)
    }

    pub fn consume_spaces(&mut self) -> (r: Result<(), Error>)
        requires old(self).wf()
        ensures final(self).wf(), final(self).measure() <= old(self).measure(),
            r is Ok ==> (final(self).is_eof || !(final(self).cur == 32 || final(self).cur == 9)),
    {
        loop
            invariant self.wf(), self.measure() <= old(self).measure(),
            decreases self.measure()
        {
            if !self.is_space() {
                return Ok(());
            }

            if let Err(err) = self.read() {
                if self.is_eof {
                    return Ok(());
                } else {
                    return Err(err);
                }
            }
        }
    }

    pub fn read(&mut self) -> (r: Result<u8, Error>)
        requires old(self).wf()
        ensures final(self).wf(),
           r is Ok ==> final(self).measure() < old(self).measure() && r->Ok_0 == final(self).cur,
           r is Err ==> final(self).measure() <= old(self).measure() && final(self).cur == old(self).cur,
           r is Err && !final(self).is_eof ==> true,
    {
        if let Some(peek_bytes) = &mut self.next {
            self.cur = peek_bytes.remove(0);
            if peek_bytes.is_empty() {
                self.next = None;
            }

            self.increment_pos();
            Ok(self.cur)
        } else {
            match self.read_byte() {
                Ok(byte) => {
                    self.cur = byte;

                    self.increment_pos();
                    Ok(byte)
                }
                Err(err) => Err(err),
            }
        }
    }

    fn increment_pos(&mut self)
        requires old(self).pos < u64::MAX, old(self).line < usize::MAX
        ensures final(self).pos == old(self).pos + 1, final(self).line <= old(self).line + 1, final(self).line >= old(self).line, final(self).cur == old(self).cur, final(self).next == old(self).next, final(self).is_eof == old(self).is_eof,
             final(self).input == old(self).input
    {
        self.pos += 1;
        if self.is_newline() {
            self.line += 1;
        }
    }

    #[verifier::external_body]
    pub fn is_newline(&self) -> (r: bool)
        ensures r == (self.cur == 13 || self.cur == 10)
    { "\r\n".as_bytes().contains(&self.cur) }

    #[verifier::external_body]
    fn read_byte(&mut self) -> (r: Result<u8, Error>)
        ensures
            final(self).cur == old(self).cur, final(self).next == old(self).next,
            final(self).pos == old(self).pos, final(self).line == old(self).line,
            final(self).last_peek == old(self).last_peek,
            r is Ok ==> rem(final(self).input) + 1 == rem(old(self).input) && final(self).is_eof == old(self).is_eof,
            r is Err ==> rem(final(self).input) <= rem(old(self).input) && (final(self).is_eof == old(self).is_eof || (final(self).is_eof && rem(final(self).input) == 0)),
    {
        unimplemented!()
    }
}

} // verus!
fn main() {}
