use vstd::prelude::*;
verus! {

#[verifier::external_body] pub struct Bool { _p: u8 }
#[verifier::external_body] pub struct Number { _p: u8 }
#[verifier::external_body] pub struct Str { _p: u8 }
#[verifier::external_body] pub struct Dict { _p: u8 }

pub enum Value {
    Null,
    Remove,
    Marker,
    Bool(Bool),
    Na,
    Number(Number),
    Str(Str),
    Dict(Dict),
}

pub uninterp spec fn str_clone_spec(s: Str) -> Str;
#[verifier::external_body]
pub fn str_clone(s: &Str) -> (r: Str) ensures r == *s { unimplemented!() }

impl Value {
    pub fn is_null(&self) -> (r: bool) ensures r == (self is Null) {
        matches!(self, Value::Null)
    }
    pub fn has_value(&self) -> (r: bool) ensures r == !(self is Null) {
        !self.is_null()
    }
    pub fn is_marker(&self) -> (r: bool) ensures r == (self is Marker) {
        matches!(self, Value::Marker)
    }
    pub fn is_bool(&self) -> (r: bool) ensures r == (self is Bool) {
        matches!(self, Value::Bool(_))
    }
    pub fn is_str(&self) -> (r: bool) ensures r == (self is Str) {
        matches!(self, Value::Str(_))
    }
}

pub fn try_from_str(value: &Value) -> (r: Result<Str, &'static str>)
    ensures r is Ok <==> value is Str, r is Ok ==> r->Ok_0 == value->Str_0
{
    match value {
        Value::Str(v) => Ok(str_clone(v)),
        _ => Err("Value is not an `Str`"),
    }
}

pub open spec fn b2n(b: bool) -> nat { if b { 1 } else { 0 } }

proof fn exactly_one(v: Value)
    ensures b2n(v is Null) + b2n(v is Remove) + b2n(v is Marker) + b2n(v is Bool) + b2n(v is Na) + b2n(v is Number) + b2n(v is Str) + b2n(v is Dict) == 1
{}

} // verus!
fn main() {}
