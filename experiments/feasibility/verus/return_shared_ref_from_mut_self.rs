use vstd::prelude::*;
verus! {
pub struct Tok { pub v: Option<u8> }
pub struct Lexer { pub n: u64, pub cur: Tok }
impl Lexer {
    pub fn read(&mut self) -> (r: Result<&Tok, u8>)
        ensures final(self).n <= old(self).n, r is Ok ==> *(r->Ok_0) == final(self).cur
    {
        while self.n > 0
            invariant self.n <= old(self).n
            decreases self.n
        {
            self.n = self.n - 1;
            if self.n % 3 == 0 { continue; }
            self.cur = Tok { v: Some(1) };
            return Ok(&self.cur);
        }
        self.cur = Tok { v: None };
        Ok(&self.cur)
    }
    pub fn is_char(&self, c: u8) -> bool {
        match &self.cur.v {
            Some(val) => val == &c,
            _ => false,
        }
    }
}
pub fn user(l: &mut Lexer) -> (r: Result<bool, u8>)
{
    l.read()?;
    let t = l.read()?.v.clone();
    Ok(l.is_char(3))
}
} // verus!
fn main() {}
