use vstd::prelude::*;
verus! {
#[verifier::external_body] pub struct Dict { _p: u8 }
pub struct Bool { pub value: bool }
pub enum Value { Null, Marker, Bool(Bool), List(Vec<Value>), Dict(Dict) }
impl Clone for Value {
    #[verifier::external_body]
    fn clone(&self) -> (r: Self) ensures r == *self { unimplemented!() }
}
#[derive(PartialEq, Eq)]
pub enum ResultType { ERR = -1, FALSE = 0, TRUE = 1 }

#[verifier::external_body]
pub fn new_error(msg: &str) { }

pub open spec fn as_list(v: Value) -> Seq<Value> { v->List_0@ }

pub fn haystack_value_get_list_len(val: Option<&Value>) -> (r: usize)
    ensures (val is Some && val->Some_0 is List) ==> r == as_list(*val->Some_0).len(),
            !(val is Some && val->Some_0 is List) ==> r == usize::MAX,
{
    match val {
        Some(value) => match value {
            Value::List(list) => return list.len(),
            _ => new_error("Not a List Value"),
        },
        None => new_error("Invalid Value reference"),
    };
    usize::MAX
}

pub fn haystack_value_set_list_entry_at(
    val: &mut Value,
    index: usize,
    entry: Option<&Value>,
) -> (r: ResultType)
    ensures ({
            let ok = *old(val) is List && index < as_list(*old(val)).len() && entry is Some;
            &&& ok ==> r == ResultType::TRUE && *final(val) is List && as_list(*final(val)) == as_list(*old(val)).update(index as int, *entry->Some_0)
            &&& !ok ==> r == ResultType::ERR && *final(val) == *old(val)
        }),
{
    match Some(val) {
        Some(value) => match value {
            Value::List(list) => {
                if index < list.len() {
                    match entry {
                        Some(entry) => {
                            list[index] = entry.clone();
                            return ResultType::TRUE;
                        }
                        None => new_error("Invalid Entry reference"),
                    }
                } else {
                    new_error("List Index out of bounds")
                }
            }
            _ => new_error("Not a List Value"),
        },
        None => new_error("Invalid Value reference"),
    };
    ResultType::ERR
}
} // verus!
fn main() {}
