use vstd::prelude::*;
use std::io::{Error, ErrorKind};
verus! {

#[verifier::external_type_specification]
#[verifier::external_body]
pub struct ExError(std::io::Error);

#[verifier::external_body]
pub struct ReaderTok { pub _p: u8 }


pub assume_specification [ u8::is_ascii_digit ] (c: &u8) -> (r: bool) ensures r == (48 <= *c <= 57);
pub assume_specification [ u8::is_ascii_lowercase ] (c: &u8) -> (r: bool) ensures r == (97 <= *c <= 122);
pub assume_specification [ u8::is_ascii_uppercase ] (c: &u8) -> (r: bool) ensures r == (65 <= *c <= 90);
pub assume_specification [ u8::is_ascii_hexdigit ] (c: &u8) -> (r: bool) ensures r == ((48 <= *c <= 57) || (65 <= *c <= 70) || (97 <= *c <= 102));

#[verifier::external_body]
pub fn lossy_string(b: &Vec<u8>) -> String { String::from_utf8_lossy(b).to_string() }

pub struct Scanner {
    pub input: ReaderTok,
    pub cur: u8,
    pub next: Option<Vec<u8>>,
    pub last_peek: u8,
    pub is_eof: bool,
    pub pos: u64,
    pub line: usize,
}

pub uninterp spec fn rem(r: ReaderTok) -> nat;

impl Scanner {
    pub open spec fn buffered(&self) -> nat {
        match self.next { Some(v) => v@.len(), None => 0 }
    }
    pub open spec fn measure(&self) -> nat {
        self.buffered() + rem(self.input) + (if self.is_eof { 0nat } else { 1nat })
    }
    pub open spec fn wf(&self) -> bool {
        (self.next is Some ==> self.next->Some_0@.len() > 0)
        && (self.is_eof ==> rem(self.input) == 0)
        && self.pos + self.buffered() + rem(self.input) < u64::MAX && self.line + self.buffered() + rem(self.input) < usize::MAX
    }

    #[verifier::external_body]
    pub fn is_space(&self) -> (r: bool)
        ensures r == (self.cur == 32 || self.cur == 9)
    {
        " \t".as_bytes().contains(&self.cur)
    }

    pub fn consume_spaces(&mut self) -> (r: Result<(), Error>)
        requires old(self).wf()
        ensures final(self).wf(), final(self).measure() <= old(self).measure(),
            r is Ok ==> (final(self).is_eof || !(final(self).cur == 32 || final(self).cur == 9)),
    {
        loop
            invariant self.wf(), self.measure() <= old(self).measure(),
            decreases self.measure()
        {
            if !self.is_space() {
                return Ok(());
            }

            if let Err(err) = self.read() {
                if self.is_eof {
                    return Ok(());
                } else {
                    return Err(err);
                }
            }
        }
    }

    pub fn read(&mut self) -> (r: Result<u8, Error>)
        requires old(self).wf()
        ensures final(self).wf(),
           r is Ok ==> final(self).measure() < old(self).measure() && r->Ok_0 == final(self).cur,
           r is Err ==> final(self).measure() <= old(self).measure() && final(self).cur == old(self).cur,
           r is Err && !final(self).is_eof ==> true,
    {
        if let Some(peek_bytes) = &mut self.next {
            self.cur = peek_bytes.remove(0);
            if peek_bytes.is_empty() {
                self.next = None;
            }

            self.increment_pos();
            Ok(self.cur)
        } else {
            match self.read_byte() {
                Ok(byte) => {
                    self.cur = byte;

                    self.increment_pos();
                    Ok(byte)
                }
                Err(err) => Err(err),
            }
        }
    }

    fn increment_pos(&mut self)
        requires old(self).pos < u64::MAX, old(self).line < usize::MAX
        ensures final(self).pos == old(self).pos + 1, final(self).line <= old(self).line + 1, final(self).line >= old(self).line, final(self).cur == old(self).cur, final(self).next == old(self).next, final(self).is_eof == old(self).is_eof,
             final(self).input == old(self).input
    {
        self.pos += 1;
        if self.is_newline() {
            self.line += 1;
        }
    }


    #[verifier::external_body]
    pub fn make_generic_err<T>(&self, msg: &str) -> (r: Result<T, Error>)
        ensures r is Err
    { unimplemented!() }

    pub fn is_digit(&self) -> (r: bool) ensures r == (48 <= self.cur <= 57) {
        self.cur.is_ascii_digit()
    }
    pub fn is_lower(&self) -> bool {
        self.cur.is_ascii_lowercase()
    }
    pub fn is_upper(&self) -> bool {
        self.cur.is_ascii_uppercase()
    }
    pub fn is_alpha_num(&self) -> bool {
        self.is_digit() || self.is_lower() || self.is_upper()
    }

    pub fn is_hex_digit(&self) -> bool {
        self.cur.is_ascii_hexdigit()
    }
    pub fn expect_and_consume(&mut self, expect: u8) -> (r: Result<u8, Error>)
        requires old(self).wf()
        ensures final(self).wf(), final(self).measure() <= old(self).measure()
    {
        if self.cur == expect {
            let cur = self.cur;
            if let Err(err) = self.read() {
                if self.is_eof {
                    return Ok(cur);
                } else {
                    return Err(err);
                }
            }
            Ok(cur)
        } else {
            self.make_expect_err(expect as char)
        }
    }
    pub fn advance(&mut self) -> (r: Result<(), Error>)
        requires old(self).wf()
        ensures final(self).wf(),
           r is Ok ==> final(self).measure() < old(self).measure() || (old(self).is_eof && final(self).measure() == old(self).measure()),
           r is Err ==> final(self).measure() <= old(self).measure(),
    {
        if let Err(err) = self.read() {
            if !self.is_eof {
                Err(err)
            } else {
                Ok(())
            }
        } else {
            Ok(())
        }
    }

    #[verifier::external_body]
    pub fn expect_and_consume_seq(&mut self, seq: &str) -> (r: Result<(), Error>)
        requires old(self).wf()
        ensures final(self).wf(), final(self).measure() <= old(self).measure()
    {
        for (i, c) in seq.as_bytes().iter().enumerate() {
            if c != &self.cur {
                return self.make_expect_err(c);
            }
            if let Err(err) = self.read() {
                if self.is_eof && i == seq.len() - 1 {
                    return Ok(());
                } else {
                    return Err(err);
                }
            }
        }
        Ok(())
    }
    #[verifier::external_body]
    pub fn make_expect_err<T, E: std::fmt::Display>(&self, item: E) -> (r: Result<T, Error>)
        ensures r is Err
    { unimplemented!() }

    #[verifier::external_body]
    pub fn is_newline(&self) -> (r: bool)
        ensures r == (self.cur == 13 || self.cur == 10)
    { "\r\n".as_bytes().contains(&self.cur) }

    #[verifier::external_body]
    fn read_byte(&mut self) -> (r: Result<u8, Error>)
        ensures
            final(self).cur == old(self).cur, final(self).next == old(self).next,
            final(self).pos == old(self).pos, final(self).line == old(self).line,
            final(self).last_peek == old(self).last_peek,
            r is Ok ==> rem(final(self).input) + 1 == rem(old(self).input) && final(self).is_eof == old(self).is_eof,
            r is Err ==> rem(final(self).input) <= rem(old(self).input) && (final(self).is_eof == old(self).is_eof || (final(self).is_eof && rem(final(self).input) == 0)),
    {
        unimplemented!()
    }
}


pub fn parse_literal(scanner: &mut Scanner) -> (r: Result<String, Error>)
    requires old(scanner).wf()
    ensures final(scanner).wf(), final(scanner).measure() <= old(scanner).measure()
{
    let mut id = Vec::new();

    while !scanner.is_eof && (scanner.is_alpha_num() || scanner.cur == b'_')
        invariant scanner.wf(), scanner.measure() <= old(scanner).measure()
        decreases scanner.measure()
    {
        id.push(scanner.cur);
        scanner.advance()?
    }

    if !id.is_empty() {
        Ok(lossy_string(&id))
    } else {
        scanner.make_generic_err("Unexpected empty literal")
    }
}

pub fn parse_str(scanner: &mut Scanner) -> (r: Result<String, Error>)
    requires old(scanner).wf()
    ensures final(scanner).wf(), final(scanner).measure() <= old(scanner).measure()
{
    let start = scanner.pos;
    scanner.expect_and_consume(b'"')?;

    let mut str = Vec::new();

    while scanner.cur != b'"'
        invariant scanner.wf(), scanner.measure() <= old(scanner).measure()
        decreases scanner.measure()
    {
        if scanner.is_eof {
            return scanner.make_generic_err("Expected '\"'");
        }

        if scanner.cur == b'\\' {
            let unicode = parse_str_escape(scanner)?;
            str.extend_from_slice(unicode.as_bytes());
        } else {
            str.push(scanner.cur);
        }
        scanner.advance()?
    }

    if start == scanner.pos {
        return scanner.make_generic_err("Unterminated Str");
    }

    scanner.advance()?;

    Ok(lossy_string(&str))
}

pub fn parse_str_escape(scanner: &mut Scanner) -> (r: Result<String, Error>)
    requires old(scanner).wf()
    ensures final(scanner).wf(), final(scanner).measure() <= old(scanner).measure(),
       r is Ok ==> !final(scanner).is_eof || true
{
    scanner.read()?;

    match scanner.cur {
        b'b' => Ok("\x0b".into()),
        b'f' => Ok("\x0f".into()),
        b'n' => Ok("\n".into()),
        b'r' => Ok("\r".into()),
        b't' => Ok("\t".into()),
        b'"' => Ok("\"".into()),
        b'$' => Ok("$".into()),
        b'\'' => Ok("'".into()),
        b'`' => Ok("`".into()),
        b'\\' => Ok("\\".into()),
        b'u' => Ok(parse_str_unicode_escape(scanner)?),
        _ => scanner.make_generic_err("x"),
    }
}

pub fn parse_str_unicode_escape(scanner: &mut Scanner) -> (r: Result<String, Error>)
    requires old(scanner).wf()
    ensures final(scanner).wf(), final(scanner).measure() <= old(scanner).measure()
{
    if scanner.cur == b'u' {
        let mut esc = Vec::new();

        for _ in 0..4 {
            scanner.read()?;

            if !scanner.is_hex_digit() {
                return scanner
                    .make_generic_err("y");
            }
            esc.push(scanner.cur)
        }

        let str = lossy_string(&esc);
        match u16::from_str_radix(&str, 16) {
            Ok(char) => Ok(String::from_utf16_lossy(&[char])),
            Err(err) => scanner
                .make_generic_err("z"),
        }
    } else {
        scanner.make_generic_err("w")
    }
}
} // verus!
fn main() {}
