use vstd::prelude::*;
verus! {
pub struct P { pub n: u64, pub depth: u64 }
pub enum V { Null, L(Vec<V>) }

pub fn parse_value(p: &mut P) -> (r: Result<V, u8>)
    ensures final(p).n <= old(p).n
    decreases old(p).n, 1nat
{
    if p.n == 0 { return Ok(V::Null); }
    if p.n % 2 == 0 {
        let l = parse_list(p)?;
        Ok(V::L(l))
    } else {
        p.n = p.n - 1;
        Ok(V::Null)
    }
}

pub fn parse_list(p: &mut P) -> (r: Result<Vec<V>, u8>)
    requires old(p).n > 0
    ensures final(p).n <= old(p).n
    decreases old(p).n, 0nat
{
    let mut list = Vec::new();
    p.n = p.n - 1;
    while p.n > 0
        invariant p.n < old(p).n
        decreases p.n
    {
        let ghost before = p.n;
        let v = parse_value(p)?;
        list.push(v);
        if p.n == 0 { break; }
        p.n = p.n - 1;
    }
    Ok(list)
}
} // verus!
fn main() {}
