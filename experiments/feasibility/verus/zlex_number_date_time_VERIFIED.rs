use vstd::prelude::*;
use std::io::Error;
verus! {

#[verifier::external_type_specification]
#[verifier::external_body]
pub struct ExError(std::io::Error);

#[verifier::external_body] pub struct ReaderTok { _p: u8 }
pub uninterp spec fn rest_len(r: ReaderTok) -> nat;

pub struct Scanner {
    pub input: ReaderTok,
    pub cur: u8,
    pub next: Option<Vec<u8>>,
    pub last_peek: u8,
    pub is_eof: bool,
    pub pos: u64,
    pub line: usize,
}
impl Scanner {
    pub open spec fn buffered(&self) -> nat { match self.next { Some(v) => v@.len(), None => 0 } }
    pub open spec fn measure(&self) -> nat { self.buffered() + rest_len(self.input) + (if self.is_eof { 0nat } else { 1nat }) }
    pub open spec fn wf(&self) -> bool { (self.next is Some ==> self.next->Some_0@.len() > 0) }
    #[verifier::external_body]
    pub fn make_generic_err<T>(&self, msg: &str) -> (r: Result<T, Error>) ensures r is Err { unimplemented!() }
    #[verifier::external_body]
    pub fn read(&mut self) -> (r: Result<u8, Error>)
        requires old(self).wf()
        ensures final(self).wf(),
           r is Ok ==> final(self).measure() < old(self).measure() && r->Ok_0 == final(self).cur,
           r is Err ==> final(self).measure() <= old(self).measure() && final(self).cur == old(self).cur,
           (r is Err && final(self).is_eof && !old(self).is_eof) ==> final(self).measure() < old(self).measure(),
    { unimplemented!() }
    #[verifier::external_body]
    pub fn peek(&mut self) -> (r: Result<u8, Error>)
        requires old(self).wf()
        ensures final(self).wf(), final(self).cur == old(self).cur,
           r is Ok ==> final(self).measure() == old(self).measure() && final(self).is_eof == old(self).is_eof && final(self).last_peek == r->Ok_0,
           r is Err ==> final(self).measure() <= old(self).measure() && (final(self).is_eof == old(self).is_eof || final(self).is_eof),
           (r is Err && final(self).is_eof && !old(self).is_eof) ==> final(self).measure() + 1 == old(self).measure(),
    { unimplemented!() }
    #[verifier::external_body]
    pub fn consume_spaces(&mut self) -> (r: Result<(), Error>)
        requires old(self).wf()
        ensures final(self).wf(), final(self).measure() <= old(self).measure(),
            r is Ok ==> (final(self).is_eof || !(final(self).cur == 32 || final(self).cur == 9)),
            (r is Ok && !old(self).is_eof && (old(self).cur == 32 || old(self).cur == 9)) ==> final(self).measure() < old(self).measure(),
    { unimplemented!() }
}

#[verifier::external_body] pub struct Dict { _p: u8 }
impl Dict {
    #[verifier::external_body] pub fn new() -> Dict { unimplemented!() }
    #[verifier::external_body] pub fn insert(&mut self, k: String, v: Value) -> Option<Value> { unimplemented!() }
}
pub type List = Vec<Value>;
pub struct Str { pub value: String }
pub enum Value { Null, Marker, Str(Str), List(List), Dict(Dict) }
impl Value {
    pub fn make_list(l: List) -> Value { Value::List(l) }
    pub fn make_dict(d: Dict) -> Value { Value::Dict(d) }
}
#[verifier::external_body]
pub fn value_clone(v: &Value) -> (r: Value) ensures r == *v { unimplemented!() }

pub struct Id { pub value: String }
#[verifier::external_body]
pub fn id_clone(v: &Id) -> (r: Id) ensures r == *v { unimplemented!() }
impl Id { #[verifier::external_body] pub fn to_string(&self) -> String { unimplemented!() } }

pub enum TokenValue { Id(Id), Value(Value), ZincChar(u8) }
pub struct LexerToken { pub value: Option<TokenValue> }

impl LexerToken {
    pub fn make_empty() -> (r: Self) ensures r.value is None { LexerToken { value: None } }
    pub fn make_id(value: Id) -> (r: Self) ensures r.value is Some { LexerToken { value: Some(TokenValue::Id(value)) } }
    pub fn make_value(value: Value) -> (r: Self) ensures r.value is Some { LexerToken { value: Some(TokenValue::Value(value)) } }
    pub fn make_char(char: u8) -> (r: Self) ensures r.value is Some { LexerToken { value: Some(TokenValue::ZincChar(char)) } }
}
#[verifier::external_body]
pub fn parse_str(scanner: &mut Scanner) -> (r: Result<Str, Error>)
    requires old(scanner).wf()
    ensures final(scanner).wf(), final(scanner).measure() <= old(scanner).measure(),
        (r is Ok && !old(scanner).is_eof) ==> final(scanner).measure() < old(scanner).measure()
{ unimplemented!() }
#[verifier::external_body]
pub fn parse_id(scanner: &mut Scanner) -> (r: Result<Id, Error>)
    requires old(scanner).wf()
    ensures final(scanner).wf(), final(scanner).measure() <= old(scanner).measure(),
        (r is Ok && !old(scanner).is_eof) ==> final(scanner).measure() < old(scanner).measure()
{ unimplemented!() }
#[verifier::external_body] pub struct Number { _p: u8 }
#[verifier::external_body] pub struct Time { _p: u8 }
#[verifier::external_body] pub struct Date { _p: u8 }
#[verifier::external_body] pub struct DateTime { _p: u8 }
pub enum V2 { Number(Number), Time(Time), Date(Date), DateTime(DateTime) }
pub struct Tok2 { pub value: Option<V2> }
impl Tok2 { pub fn make_value(v: V2) -> (r: Self) ensures r.value is Some { Tok2 { value: Some(v) } } }

pub open spec fn consuming(old_s: Scanner, new_s: Scanner, ok: bool) -> bool {
    new_s.wf() && new_s.measure() <= old_s.measure() && ((ok && !old_s.is_eof) ==> new_s.measure() < old_s.measure())
}
#[verifier::external_body] pub fn parse_neg_inf(scanner: &mut Scanner) -> (r: Result<Number, Error>) requires old(scanner).wf() ensures consuming(*old(scanner), *final(scanner), r is Ok) { unimplemented!() }
#[verifier::external_body] pub fn parse_number(scanner: &mut Scanner) -> (r: Result<Number, Error>) requires old(scanner).wf() ensures consuming(*old(scanner), *final(scanner), r is Ok) { unimplemented!() }
#[verifier::external_body] pub fn parse_time(scanner: &mut Scanner) -> (r: Result<Time, Error>) requires old(scanner).wf() ensures consuming(*old(scanner), *final(scanner), r is Ok) { unimplemented!() }
#[verifier::external_body] pub fn parse_date(scanner: &mut Scanner) -> (r: Result<Date, Error>) requires old(scanner).wf() ensures consuming(*old(scanner), *final(scanner), r is Ok) { unimplemented!() }
#[verifier::external_body] pub fn parse_datetime(scanner: &mut Scanner) -> (r: Result<DateTime, Error>) requires old(scanner).wf() ensures consuming(*old(scanner), *final(scanner), r is Ok) { unimplemented!() }
#[verifier::external_body] pub fn is_partial_date(scanner: &mut Scanner) -> (r: Result<bool, Error>)
    requires old(scanner).wf()
    ensures final(scanner).wf(), final(scanner).measure() <= old(scanner).measure(), final(scanner).cur == old(scanner).cur,
        r is Ok ==> final(scanner).is_eof == old(scanner).is_eof,
{ unimplemented!() }

pub fn parse_number_date_time(scanner: &mut Scanner) -> (r: Result<Tok2, Error>)
    requires old(scanner).wf(), !old(scanner).is_eof
    ensures final(scanner).wf(), final(scanner).measure() <= old(scanner).measure(),
        r is Ok ==> final(scanner).measure() < old(scanner).measure()
{
    if scanner.cur == b'-' {
        if scanner.peek()? == b'I' {
            let inf = parse_neg_inf(scanner)?;
            Ok(Tok2::make_value(V2::Number(inf)))
        } else {
            let number = parse_number(scanner)?;
            Ok(Tok2::make_value(V2::Number(number)))
        }
    } else {
        let mut read_count = 0;
        let mut cur = scanner.cur;
        for _i in 0..4
            invariant scanner.wf(), 0 <= read_count <= _i,
                !scanner.is_eof ==> scanner.measure() == old(scanner).measure(),
                scanner.is_eof ==> scanner.measure() + 1 == old(scanner).measure(),
        {
            if !cur.is_ascii_digit() || scanner.is_eof {
                break;
            }
            read_count += 1;

            match scanner.peek() {
                Ok(val) => cur = val,
                Err(err) => {
                    if !scanner.is_eof {
                        return Err(err);
                    }
                }
            }
        }

        if scanner.is_eof {
            scanner.is_eof = false;
            let number = parse_number(scanner)?;
            Ok(Tok2::make_value(V2::Number(number)))
        } else if read_count == 2 && scanner.last_peek == b':' {
            let time = parse_time(scanner)?;
            Ok(Tok2::make_value(V2::Time(time)))
        } else if read_count == 4 && scanner.last_peek == b'-' && is_partial_date(scanner)? {
            match scanner.peek() {
                Ok(peek) => {
                    if peek != b'T' {
                        let date = parse_date(scanner)?;
                        Ok(Tok2::make_value(V2::Date(date)))
                    } else {
                        let datetime = parse_datetime(scanner)?;
                        Ok(Tok2::make_value(V2::DateTime(datetime)))
                    }
                }
                Err(err) => {
                    if scanner.is_eof {
                        let date = parse_date(scanner)?;
                        Ok(Tok2::make_value(V2::Date(date)))
                    } else {
                        Err(err)
                    }
                }
            }
        } else {
            let number = parse_number(scanner)?;
            Ok(Tok2::make_value(V2::Number(number)))
        }
    }
}
pub assume_specification [ u8::is_ascii_digit ] (c: &u8) -> (r: bool) ensures r == (48 <= *c <= 57);
pub struct Lexer { pub scanner: Scanner, pub cur: LexerToken }
impl Lexer {
    pub open spec fn m(&self) -> nat { self.scanner.measure() + (if self.cur.value is Some { 1nat } else { 0nat }) }
    pub open spec fn wf(&self) -> bool { self.scanner.wf() }


    pub fn read(&mut self) -> (r: Result<&LexerToken, Error>)
        requires old(self).wf()
        ensures final(self).wf(),
            final(self).scanner.measure() <= old(self).scanner.measure(),
            (r is Ok && final(self).cur.value is Some) ==> final(self).scanner.measure() < old(self).scanner.measure(),
            (r is Ok && final(self).cur.value is None) ==> final(self).scanner.is_eof,
    {
        while !self.scanner.is_eof
            invariant self.scanner.wf(), self.scanner.measure() <= old(self).scanner.measure(),
            decreases self.scanner.measure()
        {
            match self.scanner.cur {
                // Spaces
                b' ' | b'\t' => {
                    self.scanner.consume_spaces()?;
                    continue;
                }
                // Str
                b'"' => {
                    let str = parse_str(&mut self.scanner)?;
                    self.cur = LexerToken::make_value(Value::Str(str));
                }
                // Special chars
                b',' | b'\r' | b'\n' | b'{' | b'}' | b':' | b'[' | b']' | b'<' | b'>' => {
                    let last_char = self.scanner.cur;
                    // Normalize new lines
                    if last_char == b'\n' || last_char == b'\r' {
                        self.cur = LexerToken::make_char(b'\n');
                    } else {
                        self.cur = LexerToken::make_char(last_char);
                    }

                    return match self.scanner.read() {
                        Ok(char) => {
                            // If using CRLF, normalize to LF
                            if last_char == b'\r' && char == b'\n' {
                                self.scanner.read()?;
                            }

                            Ok(&self.cur)
                        }
                        Err(err) => {
                            if self.scanner.is_eof {
                                Ok(&self.cur)
                            } else {
                                Err(err)
                            }
                        }
                    };
                }
                // Ids
                b'a'..=b'z' => {
                    let id = parse_id(&mut self.scanner)?;
                    self.cur = LexerToken::make_id(id);
                }
                _ => {
                    return self.scanner.make_generic_err("Unexpected lexer character")
                }
            };
            return Ok(&self.cur);
        }
        self.cur = LexerToken::make_empty();
        Ok(&self.cur)
    }
    pub fn is_eof(&self) -> (r: bool) ensures r == self.scanner.is_eof {
        self.scanner.is_eof
    }
    pub fn make_generic_err<T>(&self, msg: &str) -> (r: Result<T, Error>) ensures r is Err {
        self.scanner.make_generic_err(msg)
    }
    pub fn expect_id(&self) -> (r: Result<Id, Error>)
        ensures r is Ok ==> self.cur.value is Some
    {
        match &self.cur.value {
            Some(TokenValue::Id(value)) => Ok(id_clone(value)),
            _ => self.scanner.make_generic_err("x"),
        }
    }
    pub fn is_id(&self) -> (r: bool) ensures r ==> self.cur.value is Some {
        matches!(&self.cur.value, Some(TokenValue::Id(_)))
    }
    pub fn is_char(&self, char: u8) -> (r: bool) ensures r ==> self.cur.value is Some {
        match &self.cur.value {
            Some(TokenValue::ZincChar(val)) => val == &char,
            _ => false,
        }
    }
    pub fn expect_char(&self, char: u8, msg: &str) -> (r: Result<u8, Error>)
        ensures r is Ok ==> self.cur.value is Some
    {
        match &self.cur.value {
            Some(TokenValue::ZincChar(val)) => {
                if val == &char {
                    Ok(char)
                } else {
                    self.scanner.make_generic_err("y")
                }
            }
            _ => self.scanner.make_generic_err("z"),
        }
    }
}

pub struct Parser { pub lexer: Lexer }

impl Parser {
    pub fn parse_value(&mut self) -> (r: Result<Value, Error>)
        requires old(self).lexer.wf()
        ensures final(self).lexer.wf(), final(self).lexer.m() <= old(self).lexer.m(),
            final(self).lexer.scanner.measure() <= old(self).lexer.scanner.measure(),
            old(self).lexer.cur.value is None ==> final(self).lexer == old(self).lexer,
        decreases old(self).lexer.m(), 2nat
    {
        match &self.lexer.cur.value {
            Some(value) => match value {
                TokenValue::Id(_) => {
                    self.lexer.make_generic_err("grid omitted in this experiment")
                }
                TokenValue::Value(value) => Ok(value_clone(value)),
                TokenValue::ZincChar(char) => match char {
                    b'[' => {
                        let list = parse_list(self)?;
                        Ok(Value::make_list(list))
                    }
                    b'{' => {
                        let dict = parse_dict(self)?;
                        Ok(Value::make_dict(dict))
                    }
                    _ => self.lexer.make_generic_err("tok"),
                },
            },
            None => Ok(Value::Null),
        }
    }
}

pub fn parse_list(parser: &mut Parser) -> (r: Result<List, Error>)
    requires old(parser).lexer.wf(), old(parser).lexer.cur.value is Some
    ensures final(parser).lexer.wf(), final(parser).lexer.m() <= old(parser).lexer.m(),
        final(parser).lexer.scanner.measure() <= old(parser).lexer.scanner.measure(),
    decreases old(parser).lexer.m(), 1nat
{
    parser.lexer.expect_char(b'[', "List parser")?;

    let mut expect_comma = false;
    let mut done = false;
    let mut list = List::new();

    while !done
        invariant parser.lexer.wf(),
            parser.lexer.scanner.measure() <= old(parser).lexer.scanner.measure(),
            parser.lexer.m() <= old(parser).lexer.m(),
            old(parser).lexer.cur.value is Some,
        decreases parser.lexer.scanner.measure()
    {
        parser.lexer.read()?;

        if parser.lexer.is_char(b']') {
            done = true;
            break;
        }

        if expect_comma {
            parser.lexer.expect_char(b',', "List parser")?;
            expect_comma = !expect_comma;
            continue;
        }

        list.push(parser.parse_value()?);
        expect_comma = true;
        if parser.lexer.is_eof() {
            break;
        }
    }

    if !done {
        return parser.lexer.make_generic_err("Invalid list, missing ']'");
    }

    Ok(list)
}

pub fn parse_dict(parser: &mut Parser) -> (r: Result<Dict, Error>)
    requires old(parser).lexer.wf(), old(parser).lexer.cur.value is Some
    ensures final(parser).lexer.wf(), final(parser).lexer.m() <= old(parser).lexer.m(),
        final(parser).lexer.scanner.measure() <= old(parser).lexer.scanner.measure(),
    decreases old(parser).lexer.m(), 1nat
{
    parser.lexer.expect_char(b'{', "Dict parser")?;
    parser.lexer.read()?;

    let dict = parse_dict_parts(parser)?;

    parser.lexer.expect_char(b'}', "Dict parser")?;

    Ok(dict)
}

pub fn parse_dict_parts(parser: &mut Parser) -> (r: Result<Dict, Error>)
    requires old(parser).lexer.wf()
    ensures final(parser).lexer.wf(), final(parser).lexer.m() <= old(parser).lexer.m(),
        final(parser).lexer.scanner.measure() <= old(parser).lexer.scanner.measure(),
    decreases old(parser).lexer.m(), 0nat
{
    let mut dict = Dict::new();
    let mut expect_comma = false;

    while !parser.lexer.is_eof()
        invariant parser.lexer.wf(),
            parser.lexer.scanner.measure() <= old(parser).lexer.scanner.measure(),
            parser.lexer.m() <= old(parser).lexer.m(),
        decreases parser.lexer.m()
    {
        if expect_comma && parser.lexer.is_char(b',') {
            parser.lexer.read()?;
            expect_comma = false;
            continue;
        }

        if !parser.lexer.is_id() {
            break;
        }

        let key = &parser.lexer.expect_id()?;
        expect_comma = true;

        parser.lexer.read()?;

        if parser.lexer.is_eof() {
            dict.insert(key.to_string(), Value::Marker);
            break;
        }

        if parser.lexer.is_char(b':') {
            parser.lexer.read()?;
            let value = parser.parse_value()?;
            dict.insert(key.to_string(), value);
            parser.lexer.read()?;
        } else {
            dict.insert(key.to_string(), Value::Marker);
        }
    }

    Ok(dict)
}

} // verus!
fn main() {}
