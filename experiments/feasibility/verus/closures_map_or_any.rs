use vstd::prelude::*;
verus! {

pub assume_specification<T, U, F: FnOnce(T) -> U>[ Option::<T>::map_or ](o: Option<T>, default: U, f: F) -> (r: U)
    requires o is Some ==> f.requires((o->Some_0,)),
    ensures o is None ==> r == default, o is Some ==> f.ensures((o->Some_0,), r);

pub enum V { Null, B(bool), L(Vec<V>) }

pub fn any_true(list: &Vec<bool>) -> (r: bool)
    ensures r == exists|i: int| 0 <= i < list@.len() && list@[i]
{
    list.iter().any(|el: &bool| -> (r: bool) ensures r == *el { *el })
}

pub fn get_or(o: Option<&bool>) -> (r: bool)
    ensures r == (o is Some && *o->Some_0)
{
    o.map_or(false, |v: &bool| -> (r: bool) ensures r == *v { *v })
}

} // verus!
fn main() {}
