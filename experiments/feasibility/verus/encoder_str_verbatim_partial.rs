#![feature(allocator_api)]
use vstd::prelude::*;
use std::io::Write;
verus! {
#[verifier::external_type_specification]
#[verifier::external_body]
pub struct ExIoError(std::io::Error);

pub enum Error { Message(String) }
pub type Result<T> = std::result::Result<T, Error>;

impl From<std::io::Error> for Error {
    fn from(_e: std::io::Error) -> Self {
        Error::from("IO error.")
    }
}
impl From<&str> for Error {
    fn from(msg: &str) -> Self {
        Error::Message(String::from(msg))
    }
}
pub struct Str { pub value: String }

pub assume_specification<A: std::alloc::Allocator> [ <Vec<u8, A> as std::io::Write>::write_all ] (w: &mut Vec<u8, A>, buf: &[u8]) -> (r: std::result::Result<(), std::io::Error>)
    ensures r is Ok, final(w)@ == old(w)@ + buf@;

pub fn to_zinc(this: &Str, writer: &mut Vec<u8>) -> (r: Result<()>)
{
        writer.write_all(b"\"")?;
        let mut buf = [0; 4];
        for c in this.value.chars() {
            if c < ' ' || c == '"' || c == '\\' {
                match c {
                    '"' => writer.write_all(br#"\""#)?,
                    '\t' => writer.write_all(br"\t")?,
                    '\r' => writer.write_all(br"\r")?,
                    '\n' => writer.write_all(br"\n")?,
                    '\\' => writer.write_all(br"\\")?,
                    _ => writer.write_fmt(format_args!("\\u{:04x}", c as u32))?,
                }
            } else if c == '$' {
                writer.write_all(br"\$")?
            } else {
                let chunk = c.encode_utf8(&mut buf);
                writer.write_fmt(format_args!("{}", chunk))?
            }
        }
        writer.write_all(b"\"")?;
        Ok(())
}
} // verus!
fn main() {}
