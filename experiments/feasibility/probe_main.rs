use libhaystack::encoding::zinc::decode::from_str;
use libhaystack::encoding::zinc::encode::*;
use libhaystack::val::*;
use libhaystack::filter::*;
use libhaystack::dict;
use std::hash::{Hash, Hasher};
use std::collections::hash_map::DefaultHasher;
fn h<T: Hash>(t: &T) -> u64 { let mut s = DefaultHasher::new(); t.hash(&mut s); s.finish() }
fn rt(v: Value) { let z = v.to_zinc_string(); match &z { Ok(z) => { let d = from_str(z); println!("  zinc={z:?} back_eq={:?} back={:?}", d.as_ref().map(|d| d == &v).unwrap_or(false), d.map(|d| format!("{d:?}")).map_err(|e| e.to_string())); } Err(e) => println!("  enc err {e}") } }
fn main() {
    let a = std::env::args().nth(1).unwrap();
    match a.as_str() {
        "esc" => { println!("{:?}", from_str("\"\\b\\f\"").map(|v| format!("{:?}", v))); }
        "uri" => { rt(Value::make_uri("http://x/é")); rt(Value::make_uri("a\\b")); rt(Value::make_uri("a😀")); }
        "ref" => { rt(Value::make_ref_with_dis("a", "say \"hi\"")); rt(Value::make_xstr_from("Bin", "a\"b")); rt(Value::make_xstr_from("bin", "x")); }
        "xstr" => { let v = Value::make_xstr_from("", "x"); println!("{:?}", v.to_zinc_string()); }
        "xstr2" => { let v = Value::make_xstr_from("éa", "x"); println!("{:?}", v.to_zinc_string()); }
        "dt" => { for s in ["2021-01-01T10:00:00+10:00", "2021-01-01T10:00:00+05:30", "2021-01-01T10:00:00-09:00", "2021-01-01T10:00:00+12:00"] { let d = DateTime::parse_from_rfc3339(s); println!("{s} -> {:?}", d.map(|d| d.to_rfc3339())); }
                  let d = DateTime::parse_from_rfc3339_with_timezone("2021-01-01T10:00:00+10:00", "Brisbane").unwrap(); rt(Value::make_datetime(d)); 
                  let j = serde_json::to_string(&Value::make_datetime(d)).unwrap(); println!("{j} -> {:?}", serde_json::from_str::<Value>(&j).map(|v| v == Value::make_datetime(d))); }
        "json" => { for x in [1e19, -1e19, 9.3e18, f64::INFINITY, f64::NAN, -0.0, 1e300] { let v = Value::make_number(x); let j = serde_json::to_string(&v).unwrap(); println!("{x:e} -> {j} -> {:?}", serde_json::from_str::<Value>(&j)); } }
        "filter" => { let f = Filter::try_from("a->b and c"); println!("{:?}", f.map(|f| f.to_string()));
            let d = dict!{"y" => Value::make_int(1)};
            for s in ["x != 5", "x < 5", "x > 5", "x == 5", "y < \"s\"", "y > T", "not x"] { let f = Filter::try_from(s).unwrap(); println!("{s}: {}", d.filter(&f)); } }
        "ord" => { use libhaystack::units::get_unit;
            let a = Number::make(0.0); let b = Number::make(-0.0); println!("eq={} ha==hb {}", a==b, h(&a)==h(&b));
            let m = Number::make_with_unit(1.0, get_unit("m").unwrap()); let s = Number::make_with_unit(1.0, get_unit("s").unwrap()); println!("m==s {} cmp {:?} partial {:?}", m==s, m.cmp(&s), m.partial_cmp(&s));
            let d1 = dict!{"a" => Value::make_int(2), "b" => Value::make_int(1)}; let d2 = dict!{"a" => Value::make_int(1), "c" => Value::make_int(1)}; println!("dict partial {:?} cmp {:?}", d1.partial_cmp(&d2), d1.cmp(&d2));
            let c1 = Coord::make(0.0, 1.0); let c2 = Coord::make(-0.0, 1.0); println!("coord eq {} hash eq {}", c1==c2, h(&c1)==h(&c2)); }
        "capi" => { use libhaystack::c_api::list::*; use libhaystack::c_api::value::*; unsafe {
            let l = Box::into_raw(haystack_value_make_list()); let e = Box::into_raw(haystack_value_make_bool(true));
            haystack_value_push_list_entry(l, e); haystack_value_push_list_entry(l, e);
            let r = haystack_value_set_list_entry_at(l, 0, e); println!("set -> {:?} len {}", r, haystack_value_get_list_len(l)); } }
        "fdeep" => { let s = "(".repeat(100000) + "a"; println!("{:?}", Filter::try_from(s.as_str()).is_ok()); }
        "dis" => { let d = dict!{"a" => Value::make_str("X"), "ab" => Value::make_str("Y"), "disMacro" => Value::make_str("$a $ab ${a}")}; println!("{}", d.dis()); 
                   let d = dict!{"dis" => Value::make_xstr_from("", "v")}; println!("{}", d.dis()); }
        _ => {}
    }
}
