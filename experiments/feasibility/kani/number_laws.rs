//@inject src/haystack/val/number.rs
#[cfg(kani)]
mod verif_kani_number {
    use super::*;
    use crate::units::Unit;
    use std::hash::{Hash, Hasher};
    struct Rec { buf: [u8; 64], n: usize }
    impl Hasher for Rec {
        fn finish(&self) -> u64 { 0 }
        fn write(&mut self, bytes: &[u8]) { for b in bytes { if self.n < 64 { self.buf[self.n] = *b; self.n += 1; } } }
    }
    fn mk_unit(name: &str, scale: f64) -> &'static Unit {
        Box::leak(Box::new(Unit { quantity: None, ids: vec![name.to_string()], dimensions: None, scale, offset: 0.0 }))
    }
    fn pick(u1: &'static Unit, u2: &'static Unit) -> Option<&'static Unit> {
        let k: u8 = kani::any(); kani::assume(k < 3);
        match k { 0 => None, 1 => Some(u1), _ => Some(u2) }
    }
    #[kani::proof]
    #[kani::unwind(66)]
    fn number_laws_units() {
        let u1 = mk_unit("m", 1.0); let u2 = mk_unit("s", 1.0);
        let x: f64 = kani::any(); let y: f64 = kani::any();
        kani::assume(!x.is_nan() && !y.is_nan());
        let a = Number { value: x, unit: pick(u1, u2) };
        let b = Number { value: y, unit: pick(u1, u2) };
        // cmp Equal iff ==
        assert!((a.cmp(&b) == std::cmp::Ordering::Equal) == (a == b));
    }
    #[kani::proof]
    #[kani::unwind(66)]
    fn number_partial_agrees_total() {
        let u1 = mk_unit("m", 1.0); let u2 = mk_unit("s", 1.0);
        let x: f64 = kani::any(); let y: f64 = kani::any();
        kani::assume(!x.is_nan() && !y.is_nan());
        let a = Number { value: x, unit: pick(u1, u2) };
        let b = Number { value: y, unit: pick(u1, u2) };
        if let Some(o) = a.partial_cmp(&b) { assert!(o == a.cmp(&b)); }
    }
    #[kani::proof]
    #[kani::unwind(66)]
    fn number_eq_hash() {
        let x: f64 = kani::any(); let y: f64 = kani::any();
        kani::assume(!x.is_nan() && !y.is_nan());
        let a = Number { value: x, unit: None };
        let b = Number { value: y, unit: None };
        if a == b {
            let mut ha = Rec{buf:[0;64],n:0}; let mut hb = Rec{buf:[0;64],n:0};
            a.hash(&mut ha); b.hash(&mut hb);
            assert!(ha.n == hb.n && ha.buf == hb.buf);
        }
    }
}
