//@inject src/haystack/encoding/json/encode.rs
#[cfg(kani)]
mod verif_kani_json {
    use crate::haystack::val::Number;
    use serde::ser::{Impossible, Serialize, Serializer};
    #[derive(Debug)]
    pub struct E;
    impl std::fmt::Display for E { fn fmt(&self, _f: &mut std::fmt::Formatter) -> std::fmt::Result { Ok(()) } }
    impl std::error::Error for E {}
    impl serde::ser::Error for E { fn custom<T: std::fmt::Display>(_m: T) -> Self { E } }
    pub enum Rec { I64(i64), U64(u64), F64(f64), Other }
    pub struct S;
    impl Serializer for S {
        type Ok = Rec; type Error = E;
        type SerializeSeq = Impossible<Rec, E>; type SerializeTuple = Impossible<Rec, E>;
        type SerializeTupleStruct = Impossible<Rec, E>; type SerializeTupleVariant = Impossible<Rec, E>;
        type SerializeMap = Impossible<Rec, E>; type SerializeStruct = Impossible<Rec, E>;
        type SerializeStructVariant = Impossible<Rec, E>;
        fn serialize_bool(self, _v: bool) -> Result<Rec, E> { Ok(Rec::Other) }
        fn serialize_i8(self, v: i8) -> Result<Rec, E> { Ok(Rec::I64(v as i64)) }
        fn serialize_i16(self, v: i16) -> Result<Rec, E> { Ok(Rec::I64(v as i64)) }
        fn serialize_i32(self, v: i32) -> Result<Rec, E> { Ok(Rec::I64(v as i64)) }
        fn serialize_i64(self, v: i64) -> Result<Rec, E> { Ok(Rec::I64(v)) }
        fn serialize_u8(self, v: u8) -> Result<Rec, E> { Ok(Rec::U64(v as u64)) }
        fn serialize_u16(self, v: u16) -> Result<Rec, E> { Ok(Rec::U64(v as u64)) }
        fn serialize_u32(self, v: u32) -> Result<Rec, E> { Ok(Rec::U64(v as u64)) }
        fn serialize_u64(self, v: u64) -> Result<Rec, E> { Ok(Rec::U64(v)) }
        fn serialize_f32(self, v: f32) -> Result<Rec, E> { Ok(Rec::F64(v as f64)) }
        fn serialize_f64(self, v: f64) -> Result<Rec, E> { Ok(Rec::F64(v)) }
        fn serialize_char(self, _v: char) -> Result<Rec, E> { Ok(Rec::Other) }
        fn serialize_str(self, _v: &str) -> Result<Rec, E> { Ok(Rec::Other) }
        fn serialize_bytes(self, _v: &[u8]) -> Result<Rec, E> { Ok(Rec::Other) }
        fn serialize_none(self) -> Result<Rec, E> { Ok(Rec::Other) }
        fn serialize_some<T: ?Sized + Serialize>(self, _v: &T) -> Result<Rec, E> { Ok(Rec::Other) }
        fn serialize_unit(self) -> Result<Rec, E> { Ok(Rec::Other) }
        fn serialize_unit_struct(self, _n: &'static str) -> Result<Rec, E> { Ok(Rec::Other) }
        fn serialize_unit_variant(self, _n: &'static str, _i: u32, _v: &'static str) -> Result<Rec, E> { Ok(Rec::Other) }
        fn serialize_newtype_struct<T: ?Sized + Serialize>(self, _n: &'static str, _v: &T) -> Result<Rec, E> { Ok(Rec::Other) }
        fn serialize_newtype_variant<T: ?Sized + Serialize>(self, _n: &'static str, _i: u32, _v: &'static str, _x: &T) -> Result<Rec, E> { Ok(Rec::Other) }
        fn serialize_seq(self, _l: Option<usize>) -> Result<Self::SerializeSeq, E> { Err(E) }
        fn serialize_tuple(self, _l: usize) -> Result<Self::SerializeTuple, E> { Err(E) }
        fn serialize_tuple_struct(self, _n: &'static str, _l: usize) -> Result<Self::SerializeTupleStruct, E> { Err(E) }
        fn serialize_tuple_variant(self, _n: &'static str, _i: u32, _v: &'static str, _l: usize) -> Result<Self::SerializeTupleVariant, E> { Err(E) }
        fn serialize_map(self, _l: Option<usize>) -> Result<Self::SerializeMap, E> { Err(E) }
        fn serialize_struct(self, _n: &'static str, _l: usize) -> Result<Self::SerializeStruct, E> { Err(E) }
        fn serialize_struct_variant(self, _n: &'static str, _i: u32, _v: &'static str, _l: usize) -> Result<Self::SerializeStructVariant, E> { Err(E) }
    }
    #[kani::proof]
    fn number_nounit_exact() {
        let v: f64 = kani::any();
        kani::assume(v.is_finite());
        let n = Number { value: v, unit: None };
        match n.serialize(S) {
            Ok(Rec::I64(i)) => assert!((i as f64) == v),
            Ok(Rec::U64(u)) => assert!((u as f64) == v),
            Ok(Rec::F64(x)) => assert!(x == v),
            _ => assert!(false),
        }
    }
}
