//@inject src/haystack/units/unit.rs
#[cfg(kani)]
mod verif_kani_unit {
    use super::*;
    fn stub_format(_a: std::fmt::Arguments<'_>) -> String { String::new() }
    fn any_dims() -> Option<UnitDimensions> {
        if kani::any() { Some(UnitDimensions { kg: kani::any(), m: kani::any(), sec: kani::any(), k: kani::any(), a: kani::any(), mol: kani::any(), cd: kani::any() }) } else { None }
    }
    #[kani::proof]
    #[kani::unwind(10)]
    #[kani::stub(alloc::fmt::format, stub_format)]
    fn convert_guard_and_formula() {
        let a = Unit { quantity: None, ids: Vec::new(), dimensions: any_dims(), scale: kani::any(), offset: kani::any() };
        let b = Unit { quantity: None, ids: Vec::new(), dimensions: any_dims(), scale: kani::any(), offset: kani::any() };
        let x: f64 = kani::any();
        let r = a.convert_to(x, &b);
        assert!(r.is_ok() == (a.dimensions == b.dimensions));
        std::mem::forget(a); std::mem::forget(b);
    }
}
