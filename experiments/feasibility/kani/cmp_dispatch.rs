//@inject src/haystack/filter/nodes.rs
#[cfg(kani)]
mod verif_kani_cmp {
    use super::cmp_dispatch;
    use crate::haystack::val::*;
    fn any_scalar() -> Value {
        let k: u8 = kani::any();
        kani::assume(k < 7);
        match k {
            0 => Value::Null, 1 => Value::Marker, 2 => Value::Na, 3 => Value::Remove,
            4 => Value::Bool(Bool { value: kani::any() }),
            5 => Value::Coord(Coord { lat: kani::any(), long: kani::any() }),
            _ => Value::Number(Number { value: kani::any(), unit: None }),
        }
    }
    #[kani::proof]
    #[kani::unwind(3)]
    fn cmp_lt_same_kind_only() {
        let lhs = any_scalar();
        let y: f64 = kani::any();
        let rhs = Value::Number(Number { value: y, unit: None });
        let r = cmp_dispatch(&PartialOrd::lt, &lhs, &rhs);
        if r {
            match &lhs { Value::Number(n) => assert!(n.value < y), _ => assert!(false) }
        }
        std::mem::forget(lhs); std::mem::forget(rhs);
    }
    #[kani::proof]
    #[kani::unwind(3)]
    fn cmp_ne_needs_value() {
        let lhs = any_scalar();
        let y: f64 = kani::any();
        let rhs = Value::Number(Number { value: y, unit: None });
        let r = cmp_dispatch(&PartialEq::ne, &lhs, &rhs);
        if r { assert!(!lhs.is_null()); }
        std::mem::forget(lhs); std::mem::forget(rhs);
    }
}
