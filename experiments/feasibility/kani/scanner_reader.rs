//@inject src/haystack/encoding/zinc/decode/scanner.rs
#[cfg(kani)]
mod verif_kani_scanner {
    use super::Scanner;
    use std::io::{Error, ErrorKind, Read};
    fn stub_format(_a: std::fmt::Arguments<'_>) -> String { String::new() }

    /// A reader that delivers `data` in symbolic chunk sizes, with symbolic Interrupted errors.
    struct Chunky { data: [u8; 3], pos: usize, budget: u8 }
    impl Read for Chunky {
        fn read(&mut self, buf: &mut [u8]) -> std::io::Result<usize> {
            if self.budget > 0 && kani::any() { self.budget -= 1; return Err(Error::from(ErrorKind::Interrupted)); }
            if self.pos >= 3 || buf.is_empty() { return Ok(0); }
            let max = core::cmp::min(buf.len(), 3 - self.pos);
            let n: usize = kani::any();
            kani::assume(n >= 1 && n <= max);
            let mut i = 0;
            while i < n { buf[i] = self.data[self.pos + i]; i += 1; }
            self.pos += n;
            Ok(n)
        }
    }

    #[kani::proof]
    #[kani::unwind(5)]
    #[kani::stub(alloc::fmt::format, stub_format)]
    fn k_reader_chunks() {
        let data: [u8; 3] = kani::any();
        let mut r = Chunky { data, pos: 0, budget: 2 };
        let mut sc = Scanner::make(&mut r).unwrap();
        assert!(!sc.is_eof && sc.cur == data[0]);
        let b1 = sc.read_byte();
        assert!(matches!(b1, Ok(b) if b == data[1]));
        let b2 = sc.read_byte();
        assert!(matches!(b2, Ok(b) if b == data[2]));
        assert!(!sc.is_eof);
        let b3 = sc.read_byte();
        assert!(b3.is_err() && sc.is_eof);
        std::mem::forget(b3);
    }

    #[kani::proof]
    #[kani::unwind(9)]
    fn k_scanner_classes() {
        let c: u8 = kani::any();
        let data = [c];
        let mut r: &[u8] = &data;
        let sc = Scanner::make(&mut r).unwrap();
        assert!(sc.cur == c);
        assert!(sc.is_space() == (c == b' ' || c == b'\t'));
        assert!(sc.is_newline() == (c == b'\r' || c == b'\n'));
        assert!(sc.is_any_of("~:-._") == (c == b'~' || c == b':' || c == b'-' || c == b'.' || c == b'_'));
        assert!(sc.is_any_of("$/%_") == (c == b'$' || c == b'/' || c == b'%' || c == b'_'));
        assert!(sc.is_digit() == (c >= b'0' && c <= b'9'));
        assert!(sc.is_alpha_num() == ((c >= b'0' && c <= b'9') || (c >= b'a' && c <= b'z') || (c >= b'A' && c <= b'Z')));
        assert!(sc.is_hex_digit() == ((c >= b'0' && c <= b'9') || (c >= b'a' && c <= b'f') || (c >= b'A' && c <= b'F')));
    }
}
