//@inject src/haystack/units/unit_dimension.rs
#[cfg(kani)]
mod verif_kani_dim {
    use super::UnitDimensions;
    fn any_dim() -> UnitDimensions {
        let d = UnitDimensions { kg: kani::any(), m: kani::any(), sec: kani::any(), k: kani::any(), a: kani::any(), mol: kani::any(), cd: kani::any() };
        kani::assume(d.kg.abs() <= 63 && d.m.abs() <= 63 && d.sec.abs() <= 63 && d.k.abs() <= 63 && d.a.abs() <= 63 && d.mol.abs() <= 63 && d.cd.abs() <= 63);
        d
    }
    #[kani::proof]
    fn dim_add_sub() {
        let a = any_dim(); let b = any_dim();
        let s = a + b;
        assert!(s.kg as i32 == a.kg as i32 + b.kg as i32);
        let d = s - b;
        assert!(d == a);
    }
}
