//@inject src/haystack/timezone/mod.rs
#[cfg(kani)]
mod verif_kani_tz {
    use super::fixed_timezone;
    fn stub_format(_a: std::fmt::Arguments<'_>) -> String { String::new() }
    #[kani::proof]
    #[kani::unwind(8)]
    #[kani::stub(alloc::fmt::format, stub_format)]
    fn fixed_tz_utc_only_for_zero() {
        let d: [u8; 4] = kani::any();
        kani::assume(d[0] >= b'0' && d[0] <= b'9' && d[1] >= b'0' && d[1] <= b'9' && d[2] >= b'0' && d[2] <= b'5' && d[3] >= b'0' && d[3] <= b'9');
        let neg: bool = kani::any();
        let bytes = [if neg { b'-' } else { b'+' }, d[0], d[1], b':', d[2], d[3]];
        let s = std::str::from_utf8(&bytes).unwrap();
        let r = fixed_timezone(s);
        if r.as_str() == "UTC" {
            assert!(d[0] == b'0' && d[1] == b'0' && d[2] == b'0' && d[3] == b'0');
        }
    }
}
