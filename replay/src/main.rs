//! Replays inputs on the real (non-Kani, non-extracted) libhaystack built from /repo's working tree.
//! usage: replay <family> <args...>; prints one line `RESULT <family> <what happened>`; exit 0 always
//! unless the real code panics (exit 101) or hangs (the caller's watchdog kills it).
use libhaystack::encoding::zinc::decode::from_str;
use libhaystack::filter::Filter;
use libhaystack::val::*;

fn unhex(s: &str) -> Vec<u8> {
    (0..s.len() / 2).map(|i| u8::from_str_radix(&s[2 * i..2 * i + 2], 16).unwrap()).collect()
}

fn main() {
    let args: Vec<String> = std::env::args().collect();
    let fam = args.get(1).map(|s| s.as_str()).unwrap_or("");
    match fam {
        // decode a Zinc document given as hex bytes
        "zinc" => {
            let bytes = unhex(&args[2]);
            let mut cur = std::io::Cursor::new(bytes);
            let r = libhaystack::encoding::zinc::decode::parser::Parser::make(&mut cur).and_then(|mut p| p.parse_value());
            println!("RESULT zinc {}", match r { Ok(v) => format!("ok {:?}", v), Err(e) => format!("err {e}") });
        }
        "zinc-str" => {
            let r = from_str(&args[2]);
            println!("RESULT zinc {}", match r { Ok(v) => format!("ok {:?}", v), Err(e) => format!("err {e}") });
        }
        // parse a filter given as hex bytes (must be utf-8)
        "filter" => {
            let bytes = unhex(&args[2]);
            let s = String::from_utf8_lossy(&bytes).to_string();
            let r = Filter::try_from(s.as_str());
            println!("RESULT filter {}", match r { Ok(f) => format!("ok {f}"), Err(e) => format!("err {e}") });
        }
        // batch <zinc|filter>: hex inputs on stdin, one per line; "B i" before, "E i <ok|err|panic>" after each
        "batch" => {
            use std::io::{BufRead, Write};
            let which = args[2].clone();
            std::panic::set_hook(Box::new(|_| {}));
            let stdin = std::io::stdin();
            let out = std::io::stdout();
            for (i, line) in stdin.lock().lines().enumerate() {
                let line = match line { Ok(l) => l, Err(_) => break };
                let bytes = unhex(line.trim());
                { let mut o = out.lock(); let _ = writeln!(o, "B {i}"); let _ = o.flush(); }
                let w = which.clone();
                let r = std::panic::catch_unwind(move || {
                    if w == "zinc" {
                        let mut cur = std::io::Cursor::new(bytes);
                        libhaystack::encoding::zinc::decode::parser::Parser::make(&mut cur).and_then(|mut p| p.parse_value()).is_ok()
                    } else {
                        let s = String::from_utf8_lossy(&bytes).to_string();
                        Filter::try_from(s.as_str()).is_ok()
                    }
                });
                let mut o = out.lock();
                let _ = writeln!(o, "E {i} {}", match r { Ok(true) => "ok", Ok(false) => "err", Err(_) => "panic" });
                let _ = o.flush();
            }
        }
        _ => {
            eprintln!("unknown family {fam}");
            std::process::exit(2);
        }
    }
    let _ = Value::Null;
}
