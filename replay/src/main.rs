//! Replays inputs on the real (non-Kani, non-extracted) libhaystack built from /repo's working tree.
//! usage: replay <family> <args...>; prints one line `RESULT <family> <what happened>`; exit 0 always
//! unless the real code panics (exit 101) or hangs (the caller's watchdog kills it).
use libhaystack::encoding::zinc::decode::from_str;
use libhaystack::filter::Filter;
use libhaystack::val::*;

fn unhex(s: &str) -> Vec<u8> {
    (0..s.len() / 2).map(|i| u8::from_str_radix(&s[2 * i..2 * i + 2], 16).unwrap()).collect()
}

fn h<T: std::hash::Hash>(t: &T) -> u64 {
    use std::hash::Hasher;
    let mut s = std::collections::hash_map::DefaultHasher::new();
    t.hash(&mut s);
    s.finish()
}

/// the C12 laws, evaluated on concrete values with the real impls
fn laws<T: PartialEq + Ord + std::hash::Hash + Clone>(a: &T, b: &T, c: &T) -> Vec<&'static str> {
    use std::cmp::Ordering;
    let mut bad = vec![];
    if !(a == a) { bad.push("reflexive"); }
    if (a == b) != (b == a) { bad.push("symmetric"); }
    if a == b && b == c && !(a == c) { bad.push("transitive"); }
    if (a.cmp(b) == Ordering::Equal) != (a == b) { bad.push("cmp-Equal-iff-eq"); }
    if a.cmp(b) != b.cmp(a).reverse() { bad.push("antisymmetric"); }
    if a.cmp(b) != Ordering::Greater && b.cmp(c) != Ordering::Greater && a.cmp(c) == Ordering::Greater { bad.push("order-transitive"); }
    if let Some(o) = a.partial_cmp(b) { if o != a.cmp(b) { bad.push("partial-agrees-with-total"); } }
    if a == b && h(a) != h(b) { bad.push("eq-implies-hash"); }
    if !(a.clone() == *a) { bad.push("clone-equal"); }
    bad
}

/// small composite values for the encoder enumerators: lists, dicts and grids, nested in each other
fn composite_samples() -> Vec<Value> {
    use libhaystack::val::{Column, Dict, Grid};
    let mut d1 = Dict::new();
    d1.insert("a".into(), Value::make_int(1));
    d1.insert("m".into(), Value::Marker);
    d1.insert("s".into(), Value::make_str("x,y"));
    let mut d2 = Dict::new();
    d2.insert("a".into(), Value::make_int(2));
    d2.insert("b".into(), Value::Na);
    let g1 = Grid::make_from_dicts(vec![d1.clone(), d2.clone()]);
    let g_empty = Grid::make_empty();
    let g_no_cols = Grid { meta: None, columns: Vec::<Column>::new(), rows: vec![d1.clone()], ver: "3.0".into() };
    let mut meta = Dict::new();
    meta.insert("dis".into(), Value::make_str("t"));
    let g_meta = Grid::make_from_dicts_with_meta(vec![d2.clone()], meta.clone());
    let mut g_colmeta = Grid::make_from_dicts(vec![d2.clone()]);
    g_colmeta.columns[0].meta = Some(meta.clone());
    // a column may carry a tag called `ver` (only the grid's own meta reserves that name in Hayson)
    if g_colmeta.columns.len() > 1 { let mut m = meta.clone(); m.insert("ver".into(), Value::make_str("1.2")); m.insert("enum".into(), Value::make_list(vec![Value::make_str("off"), Value::make_str("on")])); m.insert("range".into(), Value::make_dict({ let mut r = Dict::new(); r.insert("min".into(), Value::make_int(0)); r })); g_colmeta.columns[1].meta = Some(m); }
    let mut meta2 = meta.clone();
    meta2.insert("m".into(), Value::Marker);
    meta2.insert("n".into(), Value::make_int(3));
    let mut g_meta2 = Grid::make_from_dicts_with_meta(vec![d2.clone()], meta2.clone());
    g_meta2.columns[1].meta = Some(meta2.clone());
    let mut g_zero_rows = Grid::make_from_dicts(vec![d2.clone()]);
    g_zero_rows.rows.clear();
    let mut d_null = Dict::new();
    d_null.insert("a".into(), Value::Null);
    d_null.insert("b".into(), Value::make_int(1));
    let g_null = Grid::make_from_dicts(vec![d_null.clone(), d2.clone()]);
    let mut d_sc = Dict::new();
    d_sc.insert("ref".into(), Value::make_ref_with_dis("a-b", "A \"b\""));
    d_sc.insert("uri".into(), Value::make_uri("http://x/a b"));
    d_sc.insert("sym".into(), Value::make_symbol("site"));
    d_sc.insert("xs".into(), Value::make_xstr_from("Bin", "a,b\nc"));
    d_sc.insert("co".into(), Value::make_coord_from(1.5, -2.25));
    d_sc.insert("nl".into(), Value::make_str("line1\nline2,<<>>"));
    d_sc.insert("rm".into(), Value::Remove);
    d_sc.insert("nul".into(), Value::Null);
    d_sc.insert("neg".into(), Value::make_number(-1.5e-7));
    d_sc.insert("inf".into(), Value::make_number(f64::NEG_INFINITY));
    d_sc.insert("dt".into(), Value::make_datetime(libhaystack::val::DateTime::parse_from_rfc3339_with_timezone("2021-06-19T19:48:23-04:00", "New_York").unwrap()));
    d_sc.insert("dtz".into(), Value::make_datetime_from_iso("2021-06-19T19:48:23Z").unwrap());
    d_sc.insert("dtl".into(), Value::make_datetime(libhaystack::val::DateTime::parse_from_rfc3339_with_timezone("2021-01-19T19:48:23Z", "London").unwrap()));
    d_sc.insert("dtk".into(), Value::make_datetime(libhaystack::val::DateTime::parse_from_rfc3339_with_timezone("2021-06-19T19:48:23+05:30", "Kolkata").unwrap()));
    d_sc.insert("dtj".into(), Value::make_datetime(libhaystack::val::DateTime::parse_from_rfc3339_with_timezone("2021-01-15T12:00:00-03:30", "St_Johns").unwrap()));
    d_sc.insert("date".into(), Value::make_date(libhaystack::val::Date::from_ymd(2021, 6, 19).unwrap()));
    d_sc.insert("time".into(), Value::make_time(libhaystack::val::Time::from_hms_milli(23, 59, 59, 999).unwrap()));
    d_sc.insert("unit".into(), Value::make_number_unit(3.0, libhaystack::units::get_unit_or_default("kW")));
    let mut meta_c = Dict::new();
    meta_c.insert("l".into(), Value::make_list(vec![Value::make_int(1), Value::make_dict(d2.clone())]));
    meta_c.insert("d".into(), Value::make_dict(d_sc.clone()));
    meta_c.insert("g".into(), Value::make_grid(g1.clone()));
    let g_meta_c = Grid::make_from_dicts_with_meta(vec![d_sc.clone(), d2.clone()], meta_c);
    let mut d_nested = Dict::new();
    d_nested.insert("g".into(), Value::make_grid(g1.clone()));
    d_nested.insert("l".into(), Value::make_list(vec![Value::make_grid(g1.clone()), Value::make_int(7)]));
    let g_nested = Grid::make_from_dicts(vec![d_nested.clone()]);
    vec![
        Value::make_list(vec![]),
        Value::make_list(vec![Value::make_int(1)]),
        Value::make_list(vec![Value::make_int(1), Value::make_str("a"), Value::Marker]),
        Value::make_list(vec![Value::make_list(vec![Value::make_int(1)]), Value::make_list(vec![])]),
        Value::make_list((0..6).map(Value::make_int).collect()),
        Value::make_list(vec![Value::make_int(42), Value::make_grid(g1.clone()), Value::Marker]),
        Value::make_dict(Dict::new()),
        Value::make_dict(d1.clone()),
        Value::make_dict(d_nested.clone()),
        Value::make_grid(g1.clone()),
        Value::make_grid(g_empty),
        Value::make_grid(g_meta),
        Value::make_grid(g_colmeta),
        // a grid that carries another version than the current one, without meta
        Value::make_grid({ let mut g = Grid::make_from_dicts(vec![d2.clone()]); g.ver = "2.0".into(); g }),
        Value::make_grid(g_meta2.clone()),
        Value::make_list(vec![Value::make_grid(g_meta2)]),
        Value::make_grid(g_zero_rows),
        Value::make_grid(g_null),
        Value::make_dict(d_null),
        Value::make_list(vec![Value::Null, Value::Remove, Value::Na]),
        Value::make_dict(d_sc.clone()),
        Value::make_list(vec![Value::make_dict(d_sc.clone())]),
        Value::make_grid(Grid::make_from_dicts(vec![d_sc])),
        Value::make_grid(g_meta_c),
        Value::make_grid(g_nested),
        Value::make_grid(g_no_cols),
    ]
}

/// C02: "an absent grid meta and an empty grid meta are the same thing" -- normalise before comparing
fn norm(v: &Value) -> Value {
    use libhaystack::val::{Dict, Grid};
    fn nd(d: &Dict) -> Dict { let mut o = Dict::new(); for (k, v) in d.iter() { o.insert(k.clone(), norm(v)); } o }
    match v {
        Value::List(l) => Value::make_list(l.iter().map(norm).collect()),
        Value::Dict(d) => Value::make_dict(nd(d)),
        Value::Grid(g) => Value::make_grid(Grid {
            meta: g.meta.as_ref().filter(|m| !m.is_empty()).map(nd),
            columns: g.columns.iter().map(|c| libhaystack::val::Column { name: c.name.clone(), meta: c.meta.as_ref().filter(|m| !m.is_empty()).map(nd) }).collect(),
            // in a grid with a single column Zinc cannot tell a row without the cell from a row with a Null cell (an empty line ends the grid)
            rows: g.rows.iter().map(|r| { let mut r = nd(r); if g.columns.len() == 1 && r.get(&g.columns[0].name).is_none() { r.insert(g.columns[0].name.clone(), Value::Null); } r }).collect(),
            ver: g.ver.clone(),
        }),
        other => other.clone(),
    }
}


// ---- an independent reader for Zinc, written from the Project Haystack grammar (not from libhaystack's decoder): used by
//      enum:zinc-reference to decide whether what the writer emits is a sentence of the grammar that denotes the value.  Liberal about
//      optional spaces, strict about structure (brackets, separators, quotes, parentheses, line structure of grids).
mod refzinc {
    use libhaystack::val::{Column, Date, DateTime, Dict, Grid, Time, Value};
    pub struct P<'a> { pub s: &'a [char], pub i: usize }
    type R<T> = Result<T, String>;
    impl<'a> P<'a> {
        fn peek(&self) -> Option<char> { self.s.get(self.i).copied() }
        fn at(&self, k: usize) -> Option<char> { self.s.get(self.i + k).copied() }
        fn eat(&mut self, c: char) -> bool { if self.peek() == Some(c) { self.i += 1; true } else { false } }
        fn expect(&mut self, c: char) -> R<()> { if self.eat(c) { Ok(()) } else { Err(format!("expected {c:?} at {} found {:?}", self.i, self.peek())) } }
        fn spaces(&mut self) { while self.peek() == Some(' ') || self.peek() == Some('\t') { self.i += 1; } }
        fn nl(&mut self) -> bool { if self.peek() == Some('\r') && self.at(1) == Some('\n') { self.i += 2; true } else { self.eat('\n') } }
        fn id(&mut self) -> R<String> {
            let st = self.i;
            match self.peek() { Some(c) if c.is_ascii_lowercase() => self.i += 1, other => return Err(format!("identifier expected at {st}, found {other:?}")) }
            while matches!(self.peek(), Some(c) if c.is_ascii_alphanumeric() || c == '_') { self.i += 1; }
            Ok(self.s[st..self.i].iter().collect())
        }
        fn hex4(&mut self) -> R<u32> {
            let mut v = 0u32;
            for _ in 0..4 { let c = self.peek().ok_or("eof in \\u")?; v = v * 16 + c.to_digit(16).ok_or(format!("bad hex digit {c:?}"))?; self.i += 1; }
            Ok(v)
        }
        fn quoted(&mut self, q: char, uri: bool) -> R<String> {
            self.expect(q)?;
            let mut out = String::new();
            loop {
                let c = self.peek().ok_or("unterminated literal")?;
                self.i += 1;
                if c == q { return Ok(out); }
                if c == '\n' { return Err("newline in literal".into()); }
                if c == '\\' {
                    let e = self.peek().ok_or("eof after backslash")?; self.i += 1;
                    match e {
                        'u' => { let v = self.hex4()?; out.push(char::from_u32(v).unwrap_or('\u{fffd}')); }
                        'b' if !uri => out.push('\u{8}'), 'f' if !uri => out.push('\u{c}'), 'n' if !uri => out.push('\n'), 'r' if !uri => out.push('\r'),
                        't' if !uri => out.push('\t'), '"' if !uri => out.push('"'), '$' if !uri => out.push('$'), '\\' => out.push('\\'),
                        ':' | '/' | '?' | '#' if uri => { out.push('\\'); out.push(e); }
                        '[' | ']' | '@' | '`' | '&' | '=' | ';' if uri => out.push(e),
                        other => return Err(format!("illegal escape \\{other}")),
                    }
                } else { out.push(c); }
            }
        }
        fn refchars(&mut self) -> String {
            let st = self.i;
            while matches!(self.peek(), Some(c) if c.is_ascii_alphanumeric() || "_:-.~".contains(c)) { self.i += 1; }
            self.s[st..self.i].iter().collect()
        }
        fn digits(&mut self) -> usize { let st = self.i; while matches!(self.peek(), Some(c) if c.is_ascii_digit()) { self.i += 1; } self.i - st }
        fn number_like(&mut self) -> R<Value> {
            let st = self.i;
            // date / time / datetime start with digits in fixed positions
            let txt = |p: &P, a: usize, b: usize| -> String { p.s[a..b].iter().collect() };
            let dig = |p: &P, k: usize| matches!(p.s.get(st + k), Some(c) if c.is_ascii_digit());
            if dig(self, 0) && dig(self, 1) && dig(self, 2) && dig(self, 3) && self.s.get(st + 4) == Some(&'-') && dig(self, 5) && dig(self, 6) && self.s.get(st + 7) == Some(&'-') && dig(self, 8) && dig(self, 9) {
                self.i = st + 10;
                if self.peek() == Some('T') {
                    self.i += 1;
                    if !(self.digits() == 2 && self.eat(':') && self.digits() == 2 && self.eat(':') && self.digits() == 2) { return Err("bad time of day in timestamp".into()); }
                    if self.eat('.') && self.digits() == 0 { return Err("empty fraction".into()); }
                    if self.eat('Z') {
                        let iso = txt(self, st, self.i);
                        // Z alone is UTC; Z followed by a space and a zone name is that zone at offset zero
                        if self.peek() == Some(' ') && matches!(self.at(1), Some(c) if c.is_ascii_uppercase()) {
                            self.i += 1; let zs = self.i;
                            while matches!(self.peek(), Some(c) if c.is_ascii_alphanumeric() || "_-+/".contains(c)) { self.i += 1; }
                            let tz = txt(self, zs, self.i);
                            if tz == "UTC" { return DateTime::parse_from_rfc3339(&iso).map(Value::make_datetime); }
                            return DateTime::parse_from_rfc3339_with_timezone(&iso, &tz).map(Value::make_datetime);
                        }
                        return DateTime::parse_from_rfc3339(&iso).map(Value::make_datetime);
                    }
                    if !(matches!(self.peek(), Some('+') | Some('-'))) { return Err("offset expected".into()); }
                    self.i += 1;
                    if !(self.digits() == 2 && self.eat(':') && self.digits() == 2) { return Err("bad offset".into()); }
                    let iso = txt(self, st, self.i);
                    self.expect(' ')?;
                    let zs = self.i;
                    while matches!(self.peek(), Some(c) if c.is_ascii_alphanumeric() || "_-+/".contains(c)) { self.i += 1; }
                    if self.i == zs { return Err("zone name expected".into()); }
                    let tz = txt(self, zs, self.i);
                    return DateTime::parse_from_rfc3339_with_timezone(&iso, &tz).map(Value::make_datetime);
                }
                return txt(self, st, self.i).parse::<Date>().map(Value::make_date).map_err(|e| format!("{e:?}"));
            }
            if dig(self, 0) && dig(self, 1) && self.s.get(st + 2) == Some(&':') {
                if !(self.digits() == 2 && self.eat(':') && self.digits() == 2 && self.eat(':') && self.digits() == 2) { return Err("bad time".into()); }
                if self.eat('.') && self.digits() == 0 { return Err("empty fraction".into()); }
                return txt(self, st, self.i).parse::<Time>().map(Value::make_time).map_err(|e| format!("{e:?}"));
            }
            // number: [-] digits(_digits)* [. digits] [e[+-]digits] [unit]
            self.eat('-');
            if self.digits() == 0 { return Err(format!("digits expected at {}", self.i)); }
            loop { if self.peek() == Some('_') && matches!(self.at(1), Some(c) if c.is_ascii_digit()) { self.i += 1; self.digits(); } else { break; } }
            if self.peek() == Some('.') && matches!(self.at(1), Some(c) if c.is_ascii_digit()) { self.i += 1; self.digits(); }
            if matches!(self.peek(), Some('e') | Some('E')) && (matches!(self.at(1), Some(c) if c.is_ascii_digit()) || (matches!(self.at(1), Some('+') | Some('-')) && matches!(self.at(2), Some(c) if c.is_ascii_digit()))) {
                self.i += 2; self.digits();
            }
            let num: String = txt(self, st, self.i).replace('_', "");
            let x: f64 = num.parse().map_err(|_| format!("not a number: {num}"))?;
            let us = self.i;
            while matches!(self.peek(), Some(c) if c.is_alphabetic() || c == '%' || c == '$' || c == '/' || c == '_' || (c as u32) > 127) { self.i += 1; }
            if self.i == us { return Ok(Value::make_number(x)); }
            let u = txt(self, us, self.i);
            match libhaystack::units::get_unit(&u) { Some(unit) => Ok(Value::make_number_unit(x, unit)), None => Err(format!("unknown unit {u:?}")) }
        }
        pub fn value(&mut self, depth: usize) -> R<Value> {
            if depth > 64 { return Err("too deep".into()); }
            match self.peek() {
                Some('"') => Ok(Value::make_str(&self.quoted('"', false)?)),
                Some('`') => Ok(Value::make_uri(&self.quoted('`', true)?)),
                Some('@') => { self.i += 1; let id = self.refchars(); if id.is_empty() { return Err("empty ref".into()); }
                    if self.peek() == Some(' ') && self.at(1) == Some('"') { self.i += 1; let d = self.quoted('"', false)?; Ok(Value::make_ref_with_dis(&id, &d)) } else { Ok(Value::make_ref(&id)) } }
                Some('^') => { self.i += 1; let st = self.i; if !matches!(self.peek(), Some(c) if c.is_ascii_lowercase()) { return Err("symbol must start lower case".into()); }
                    let body = self.refchars(); let _ = st; Ok(Value::make_symbol(&body)) }
                Some('[') => { self.i += 1; let mut items = vec![]; self.spaces();
                    if self.eat(']') { return Ok(Value::make_list(items)); }
                    loop { items.push(self.value(depth + 1)?); self.spaces();
                        if self.eat(',') { self.spaces(); if self.eat(']') { break; } continue; }
                        self.expect(']')?; break; }
                    Ok(Value::make_list(items)) }
                Some('{') => { self.i += 1; let d = self.tags(depth, '}')?; self.expect('}')?; Ok(Value::make_dict(d)) }
                Some('<') => { self.expect('<')?; self.expect('<')?; self.spaces(); if !self.nl() { return Err("newline expected after <<".into()); }
                    let g = self.grid(depth + 1, true)?; self.expect('>')?; self.expect('>')?; Ok(Value::make_grid(g)) }
                Some(c) if c.is_ascii_digit() => self.number_like(),
                Some('-') => { if self.at(1) == Some('I') { let w: String = self.s[self.i..(self.i + 4).min(self.s.len())].iter().collect(); if w == "-INF" { self.i += 4; return Ok(Value::make_number(f64::NEG_INFINITY)); } } self.number_like() }
                Some(c) if c.is_ascii_uppercase() => {
                    let st = self.i; while matches!(self.peek(), Some(c) if c.is_ascii_alphanumeric() || c == '_') { self.i += 1; }
                    let w: String = self.s[st..self.i].iter().collect();
                    if self.peek() == Some('(') {
                        self.i += 1;
                        if w == "C" { let lat = self.coord_deg()?; self.expect(',')?; let lng = self.coord_deg()?; self.expect(')')?; return Ok(Value::make_coord_from(lat, lng)); }
                        let v = self.quoted('"', false)?; self.expect(')')?; return Ok(Value::make_xstr_from(&w, &v));
                    }
                    match w.as_str() { "N" => Ok(Value::Null), "M" => Ok(Value::Marker), "R" => Ok(Value::Remove), "NA" => Ok(Value::Na), "T" => Ok(Value::make_true()), "F" => Ok(Value::make_false()),
                        "NaN" => Ok(Value::make_number(f64::NAN)), "INF" => Ok(Value::make_number(f64::INFINITY)), other => Err(format!("unknown keyword {other}")) }
                }
                other => Err(format!("value expected at {}, found {other:?}", self.i)),
            }
        }
        fn coord_deg(&mut self) -> R<f64> { let st = self.i; self.eat('-'); if self.digits() == 0 { return Err("coord digits".into()); } if self.eat('.') && self.digits() == 0 { return Err("coord fraction".into()); }
            let t: String = self.s[st..self.i].iter().collect(); t.parse().map_err(|_| "coord".to_string()) }
        /// tags up to `end` (or to the end of the line for grid / column meta when end == '\n')
        fn tags(&mut self, depth: usize, end: char) -> R<Dict> {
            let mut d = Dict::new();
            loop {
                self.spaces();
                match self.peek() { Some(c) if c == end => return Ok(d), None => return Ok(d), Some('\r') | Some('\n') if end == '\n' => return Ok(d), Some(',') if end == '\n' => return Ok(d), _ => {} }
                let k = self.id()?;
                if self.eat(':') { let v = self.value(depth + 1)?; d.insert(k, v); } else { d.insert(k, Value::Marker); }
                self.spaces();
                if end == '}' { self.eat(','); }
            }
        }
        pub fn grid(&mut self, depth: usize, nested: bool) -> R<Grid> {
            let v = self.id()?; if v != "ver" { return Err("ver expected".into()); }
            self.expect(':')?; let ver = self.quoted('"', false)?;
            let meta = self.tags(depth, '\n')?;
            if !self.nl() { return Err("newline expected after the version line".into()); }
            let mut cols = vec![];
            loop { self.spaces(); let name = self.id()?; let m = self.tags(depth, '\n')?; cols.push(Column { name, meta: if m.is_empty() { None } else { Some(m) } });
                self.spaces(); if self.eat(',') { continue; } break; }
            if !self.nl() { return Err(format!("newline expected after the column line at {}", self.i)); }
            let mut rows = vec![];
            loop {
                // end of grid: end of input, a blank line, or >> of a nested grid
                if self.peek().is_none() { break; }
                if nested && self.peek() == Some('>') && self.at(1) == Some('>') { break; }
                if self.peek() == Some('\n') || self.peek() == Some('\r') { self.nl(); if nested { continue; } else { break; } }
                let mut row = Dict::new(); let mut c = 0;
                loop {
                    self.spaces();
                    if !matches!(self.peek(), Some(',') | Some('\n') | Some('\r') | None) { if c >= cols.len() { return Err("more cells than columns".into()); } let v = self.value(depth + 1)?; row.insert(cols[c].name.clone(), v); self.spaces(); }
                    if self.eat(',') { c += 1; continue; }
                    break;
                }
                if !self.nl() && self.peek().is_some() { return Err(format!("newline expected after a row at {}", self.i)); }
                rows.push(row);
            }
            let is_empty_marker = cols.len() == 1 && cols[0].name == "empty" && cols[0].meta.is_none() && rows.is_empty();
            let _ = is_empty_marker;
            Ok(Grid { meta: if meta.is_empty() { None } else { Some(meta) }, columns: cols, rows, ver })
        }
    }
    pub fn parse(text: &str) -> Result<Value, String> {
        let cs: Vec<char> = text.chars().collect();
        let mut p = P { s: &cs, i: 0 };
        let v = if text.starts_with("ver:") { Value::make_grid(p.grid(0, false)?) } else { p.value(0)? };
        while matches!(p.peek(), Some('\n') | Some('\r') | Some(' ')) { p.i += 1; }
        if p.i != cs.len() { return Err(format!("text after the value at {}: {:?}", p.i, cs[p.i..].iter().take(12).collect::<String>())); }
        Ok(v)
    }
}


// ---- an independent reader for Hayson, written from the Hayson specification over serde_json's own document tree (not from
//      libhaystack's decoder): member order is irrelevant, names and `_kind` tags are exact
mod refhayson {
    use libhaystack::val::{Column, DateTime, Dict, Grid, Value};
    use serde_json::Value as J;
    fn s<'a>(o: &'a serde_json::Map<String, J>, k: &str) -> Result<&'a str, String> { o.get(k).and_then(|v| v.as_str()).ok_or(format!("member {k:?} missing or not a string")) }
    fn only(o: &serde_json::Map<String, J>, allowed: &[&str]) -> Result<(), String> {
        for k in o.keys() { if !allowed.contains(&k.as_str()) { return Err(format!("unexpected member {k:?}")); } } Ok(()) }
    fn dict(o: &serde_json::Map<String, J>, skip: &[&str]) -> Result<Dict, String> {
        let mut d = Dict::new(); for (k, v) in o { if !skip.contains(&k.as_str()) { d.insert(k.clone(), decode(v)?); } } Ok(d) }
    pub fn decode(j: &J) -> Result<Value, String> {
        match j {
            J::Null => Ok(Value::Null), J::Bool(b) => Ok(Value::make_bool(*b)), J::String(t) => Ok(Value::make_str(t)),
            J::Number(n) => n.as_f64().map(Value::make_number).ok_or("number".into()),
            J::Array(a) => Ok(Value::make_list(a.iter().map(decode).collect::<Result<Vec<_>, _>>()?)),
            J::Object(o) => match o.get("_kind").and_then(|k| k.as_str()) {
                None => Ok(Value::make_dict(dict(o, &[])?)),
                Some("dict") => Ok(Value::make_dict(dict(o, &["_kind"])?)),
                Some("marker") => { only(o, &["_kind"])?; Ok(Value::Marker) } Some("remove") => { only(o, &["_kind"])?; Ok(Value::Remove) } Some("na") => { only(o, &["_kind"])?; Ok(Value::Na) }
                Some("number") => { only(o, &["_kind", "val", "unit"])?;
                    let x = match o.get("val") { Some(J::Number(n)) => n.as_f64().ok_or("val")?, Some(J::String(t)) => match t.as_str() { "INF" => f64::INFINITY, "-INF" => f64::NEG_INFINITY, "NaN" => f64::NAN, _ => return Err("val".into()) }, _ => return Err("number without val".into()) };
                    match o.get("unit") { None => Ok(Value::make_number(x)), Some(J::String(u)) => libhaystack::units::get_unit(u).map(|u| Value::make_number_unit(x, u)).ok_or(format!("unknown unit {u}")), _ => Err("unit".into()) } }
                Some("ref") => { only(o, &["_kind", "val", "dis"])?; match o.get("dis") { None => Ok(Value::make_ref(s(o, "val")?)), Some(J::String(d)) => Ok(Value::make_ref_with_dis(s(o, "val")?, d)), _ => Err("dis".into()) } }
                Some("symbol") => { only(o, &["_kind", "val"])?; Ok(Value::make_symbol(s(o, "val")?)) }
                Some("uri") => { only(o, &["_kind", "val"])?; Ok(Value::make_uri(s(o, "val")?)) }
                Some("xstr") => { only(o, &["_kind", "type", "val"])?; Ok(Value::make_xstr_from(s(o, "type")?, s(o, "val")?)) }
                Some("coord") => { only(o, &["_kind", "lat", "lng"])?; let f = |k: &str| o.get(k).and_then(|v| v.as_f64()).ok_or(format!("coord member {k}")); Ok(Value::make_coord_from(f("lat")?, f("lng")?)) }
                Some("date") => { only(o, &["_kind", "val"])?; s(o, "val")?.parse::<libhaystack::val::Date>().map(Value::make_date).map_err(|e| format!("{e:?}")) }
                Some("time") => { only(o, &["_kind", "val"])?; s(o, "val")?.parse::<libhaystack::val::Time>().map(Value::make_time).map_err(|e| format!("{e:?}")) }
                Some("dateTime") => { only(o, &["_kind", "val", "tz"])?; match o.get("tz") { None => DateTime::parse_from_rfc3339(s(o, "val")?).map(Value::make_datetime),
                    Some(J::String(tz)) if tz == "UTC" => DateTime::parse_from_rfc3339(s(o, "val")?).map(Value::make_datetime),
                    Some(J::String(tz)) => DateTime::parse_from_rfc3339_with_timezone(s(o, "val")?, tz).map(Value::make_datetime), _ => Err("tz".into()) } }
                Some("grid") => { only(o, &["_kind", "meta", "cols", "rows"])?;
                    let mut ver = "3.0".to_string();
                    let meta = match o.get("meta") { None => None, Some(J::Object(m)) => { if let Some(J::String(v)) = m.get("ver") { ver = v.clone(); } Some(dict(m, &["ver"])?) } _ => return Err("meta".into()) };
                    let cols = match o.get("cols") { Some(J::Array(a)) => a.iter().map(|c| match c { J::Object(c) => { only(c, &["name", "meta"])?;
                        Ok(Column { name: s(c, "name")?.to_string(), meta: match c.get("meta") { None => None, Some(J::Object(m)) => Some(dict(m, &[])?), _ => return Err("col meta".to_string()) } }) } _ => Err("col".to_string()) }).collect::<Result<Vec<_>, _>>()?, _ => return Err("cols".into()) };
                    let rows = match o.get("rows") { Some(J::Array(a)) => a.iter().map(|r| match r { J::Object(r) => dict(r, &[]), _ => Err("row".to_string()) }).collect::<Result<Vec<_>, _>>()?, _ => return Err("rows".into()) };
                    Ok(Value::make_grid(Grid { meta, columns: cols, rows, ver })) }
                Some(other) => Err(format!("unknown _kind {other:?}")),
            },
        }
    }
}

// ---- seeded random well-formed values (shared by enum:random-values and enum:random-spellings)
mod randgen {
    use libhaystack::val::{Column, Date, DateTime, Dict, Grid, Time, Value};
    pub struct Rng(pub u64);
    impl Rng { pub fn seeded(seed: u64) -> Rng { Rng(0x9E3779B97F4A7C15 ^ (seed.wrapping_mul(0x2545F4914F6CDD1D)).wrapping_add(1)) }
        pub fn next(&mut self) -> u64 { self.0 ^= self.0 << 13; self.0 ^= self.0 >> 7; self.0 ^= self.0 << 17; self.0 }
        pub fn below(&mut self, n: usize) -> usize { (self.next() % n as u64) as usize }
        pub fn pick<'a, T>(&mut self, xs: &'a [T]) -> &'a T { &xs[self.below(xs.len())] } }
    pub const IDS: [&str; 8] = ["a", "b", "dis", "siteRef", "x1", "camelCase", "with_underscore", "n"];
    pub const STRS: [&str; 15] = ["", "a", "x,y", "line1\nline2", "q\"uote", "back\\slash", "$dollar", "\u{e9}\u{20ac}", "\u{1F600}", "tab\there", " lead", "<<>>", "[1,2]", "{a:1}", "ver:\"3.0\""];
    pub const UNITS: [&str; 8] = ["kg", "%", "kW", "\u{b0}F", "/h", "$", "m\u{b2}", "s"];
    pub const ZONES: [(&str, &str); 6] = [("2021-06-19T19:48:23-04:00", "New_York"), ("2021-01-15T12:00:00-03:30", "St_Johns"), ("2021-06-19T19:48:23.5+05:30", "Kolkata"), ("2021-01-19T19:48:23Z", "London"), ("2021-06-19T19:48:23.123Z", "UTC"), ("1999-12-31T23:59:59+09:00", "Tokyo")];
    pub fn scalar(rng: &mut Rng, strs: &[&str], units: &[&str], zones: &[(&str, &str)]) -> Value {
        match rng.below(17) {
            0 => Value::Marker, 1 => Value::Na, 2 => Value::Remove, 3 => Value::make_bool(rng.below(2) == 0),
            4 => { let mags = [0.0, -0.0, 1.0, -1.0, 0.5, 1e-7, 5e-324, 1e21, 123456.789, -9876543210.5, 1.7976931348623157e308, 2.2250738585072014e-308, 0.1 + 0.2, 1e15 + 0.5];
                   let x = *rng.pick(&mags) * if rng.below(2) == 0 { 1.0 } else { (rng.below(1000) as f64 + 1.0) / 7.0 };
                   if rng.below(3) == 0 { match libhaystack::units::get_unit(*rng.pick(units)) { Some(u) if x.is_finite() => Value::make_number_unit(x, u), _ => Value::make_number(x) } } else { Value::make_number(x) } }
            5 => Value::make_number(*rng.pick(&[f64::NAN, f64::INFINITY, f64::NEG_INFINITY])),
            6 | 7 => Value::make_str(*rng.pick(strs)),
            8 => { let id = *rng.pick(&["a", "a.b:c-d~e_f", "p:demo:r:1eeb11ef-fa6b895d", "X9"]); if rng.below(2) == 0 { Value::make_ref(id) } else { Value::make_ref_with_dis(id, *rng.pick(strs)) } }
            9 => Value::make_symbol(*rng.pick(&["site", "a.b-c:d", "hot-water", "x1"])),
            10 => Value::make_uri(*rng.pick(&["http://x/y?z=1#f", "a`b", "a\\b", "/a b/\u{e9}", "[x]@y&z=1;2", ""])),
            11 => Value::make_date(Date::from_ymd(1 + rng.below(9998) as i32, 1 + rng.below(12) as u32, 1 + rng.below(28) as u32).unwrap()),
            12 => Value::make_time(Time::from_hms_milli(rng.below(24) as u32, rng.below(60) as u32, rng.below(60) as u32, *rng.pick(&[0u32, 5, 120, 999])).unwrap()),
            13 => { let (iso, tz) = *rng.pick(zones); Value::make_datetime(if tz == "UTC" { DateTime::parse_from_rfc3339(iso).unwrap() } else { DateTime::parse_from_rfc3339_with_timezone(iso, tz).unwrap() }) }
            14 => Value::make_coord_from(*rng.pick(&[0.0, -0.0, 45.5, -89.999999, 90.0, 1e-7]), *rng.pick(&[0.0, 180.0, -179.5, 23.25, 1e-9])),
            15 => Value::make_xstr_from(*rng.pick(&["Bin", "Span", "Foo_1", "X"]), *rng.pick(strs)),
            _ => Value::Null,
        }
    }
    pub fn dict(rng: &mut Rng, depth: usize, ids: &[&str], strs: &[&str], units: &[&str], zones: &[(&str, &str)]) -> Dict {
        let mut d = Dict::new(); for _ in 0..rng.below(5) { let k = *rng.pick(ids); let v = value(rng, depth + 1, ids, strs, units, zones); d.insert(k.into(), v); } d }
    pub fn value(rng: &mut Rng, depth: usize, ids: &[&str], strs: &[&str], units: &[&str], zones: &[(&str, &str)]) -> Value {
        if depth >= 3 || rng.below(10) < 6 { return scalar(rng, strs, units, zones); }
        match rng.below(3) {
            0 => Value::make_list((0..rng.below(4)).map(|_| value(rng, depth + 1, ids, strs, units, zones)).collect()),
            1 => Value::make_dict(dict(rng, depth, ids, strs, units, zones)),
            _ => { let ncols = 1 + rng.below(4); let cols: Vec<Column> = (0..ncols).map(|i| Column { name: format!("c{i}"), meta: if rng.below(3) == 0 { let m = dict(rng, 1, ids, strs, units, zones); if m.is_empty() { None } else { Some(m) } } else { None } }).collect();
                let rows: Vec<Dict> = (0..rng.below(4)).map(|_| { let mut r = Dict::new(); for c in &cols { if rng.below(3) != 0 { r.insert(c.name.clone(), value(rng, depth + 1, ids, strs, units, zones)); } } r }).collect();
                let meta = if rng.below(2) == 0 { let m = dict(rng, 1, ids, strs, units, zones); if m.is_empty() { None } else { Some(m) } } else { None };
                Value::make_grid(Grid { meta, columns: cols, rows, ver: "3.0".into() }) }
        }
    }
}


// ---- an independent *writer* for Zinc that picks, at random, among the spellings the grammar allows for a value (number forms, \uXXXX
//      escapes, separators with and without spaces, trailing commas, marker tags with and without :M, LF / CRLF line endings)
mod refwrite {
    use super::randgen::Rng;
    use libhaystack::val::{Dict, Grid, Value};
    fn qstr(s: &str, q: char, rng: &mut Rng) -> String {
        let mut o = String::new(); o.push(q);
        for c in s.chars() {
            let esc_u = (c as u32) < 0x10000 && rng.below(6) == 0;
            match c {
                _ if esc_u => o.push_str(&if rng.below(2) == 0 { format!("\\u{:04x}", c as u32) } else { format!("\\u{:04X}", c as u32) }),
                '"' if q == '"' => o.push_str("\\\""), '`' if q == '`' => o.push_str("\\`"), '\\' => o.push_str("\\\\"),
                '\n' => o.push_str("\\n"), '\r' => o.push_str("\\r"), '\t' => o.push_str(if rng.below(2) == 0 { "\\t" } else { "\\u0009" }), '$' if q == '"' => o.push_str("\\$"),
                c if (c as u32) < 0x20 => o.push_str(&format!("\\u{:04x}", c as u32)),
                c => o.push(c),
            }
        }
        o.push(q); o
    }
    fn num(x: f64, rng: &mut Rng) -> String {
        if x.is_nan() { return "NaN".into(); } if x == f64::INFINITY { return "INF".into(); } if x == f64::NEG_INFINITY { return "-INF".into(); }
        match rng.below(3) { 0 => format!("{x:e}"), 1 => format!("{x:E}"), _ => format!("{x}") }
    }
    fn tags(d: &Dict, seps: &[&str], rng: &mut Rng, depth: usize) -> String {
        let mut o = String::new();
        for (i, (k, v)) in d.iter().enumerate() {
            if i > 0 { o.push_str(seps[rng.below(seps.len())]); }
            o.push_str(k);
            if !matches!(v, Value::Marker) || rng.below(3) == 0 { o.push(':'); o.push_str(&value(v, rng, depth + 1)); }
        }
        o
    }
    pub fn value(v: &Value, rng: &mut Rng, depth: usize) -> String {
        use libhaystack::encoding::zinc::encode::ToZinc;
        match v {
            Value::Null => "N".into(), Value::Marker => "M".into(), Value::Remove => "R".into(), Value::Na => "NA".into(),
            Value::Bool(b) => if b.value { "T".into() } else { "F".into() },
            Value::Number(n) => { let mut t = num(n.value, rng); if let Some(u) = n.unit { t.push_str(u.symbol()); } t }
            Value::Str(s) => qstr(&s.value, '"', rng),
            Value::Uri(u) => { let mut o = String::from("`"); for c in u.value.chars() { match c { '`' => o.push_str("\\`"), '\\' => o.push_str("\\\\"), c => o.push(c) } } o.push('`'); o }
            Value::Ref(r) => match &r.dis { Some(d) => format!("@{} {}", r.value, qstr(d, '"', rng)), None => format!("@{}", r.value) },
            Value::Symbol(s) => format!("^{}", s.value),
            Value::XStr(x) => format!("{}({})", x.r#type, qstr(&x.value, '"', rng)),
            Value::Coord(c) => format!("C({},{})", c.lat, c.long),
            // dates, times and timestamps have one spelling each (fraction digits aside): the library's own text
            Value::Date(_) | Value::Time(_) | Value::DateTime(_) => v.to_zinc_string().unwrap(),
            Value::List(l) => { let mut o = String::from("["); if rng.below(3) == 0 { o.push(' '); }
                for (i, e) in l.iter().enumerate() { if i > 0 { o.push_str(["," , ", ", " ,"][rng.below(3)]); } o.push_str(&value(e, rng, depth + 1)); }
                if !l.is_empty() && rng.below(3) == 0 { o.push(','); } if rng.below(3) == 0 { o.push(' '); } o.push(']'); o }
            Value::Dict(d) => format!("{{{}}}", tags(d, &[" ", ",", ", "], rng, depth)),
            Value::Grid(g) => format!("<<\n{}>>", grid(g, rng, depth + 1, true)),
        }
    }
    pub fn grid(g: &Grid, rng: &mut Rng, depth: usize, nested: bool) -> String {
        let nl = if !nested && rng.below(2) == 0 { "\r\n" } else { "\n" };
        let mut o = format!("ver:{}", qstr(&g.ver, '"', rng));
        if let Some(m) = &g.meta { if !m.is_empty() { o.push(' '); o.push_str(&tags(m, &[" "], rng, depth)); } }
        o.push_str(nl);
        if g.columns.is_empty() { o.push_str("empty"); o.push_str(nl); }
        else {
            for (i, c) in g.columns.iter().enumerate() { if i > 0 { o.push(','); } o.push_str(&c.name);
                if let Some(m) = &c.meta { if !m.is_empty() { o.push(' '); o.push_str(&tags(m, &[" "], rng, depth)); } } }
            o.push_str(nl);
            for r in &g.rows {
                for (i, c) in g.columns.iter().enumerate() { if i > 0 { o.push(','); }
                    match r.get(&c.name) { Some(v) => o.push_str(&value(v, rng, depth + 1)), None => if g.columns.len() == 1 { o.push('N') } } }
                o.push_str(nl);
            }
        }
        if !nested && rng.below(2) == 0 { o.push_str(nl); }
        o
    }
    pub fn top(v: &Value, rng: &mut Rng) -> String { match v { Value::Grid(g) => grid(g, rng, 0, false), other => value(other, rng, 0) } }
}


// ---- an independent *writer* for Hayson that picks, at random, among the spellings the format allows: members in any order, the optional
//      "_kind":"dict", "tz":"UTC" present or absent for UTC timestamps, numbers as integer / decimal / exponent text, optional grid and column meta
mod refhaysonwrite {
    use super::randgen::Rng;
    use libhaystack::val::{Dict, Grid, Value};
    fn js(s: &str) -> String { serde_json::to_string(s).unwrap() }
    fn obj(mut members: Vec<(String, String)>, rng: &mut Rng) -> String {
        for i in (1..members.len()).rev() { let j = rng.below(i + 1); members.swap(i, j); }
        format!("{{{}}}", members.iter().map(|(k, v)| format!("{}:{}", js(k), v)).collect::<Vec<_>>().join(","))
    }
    fn num(x: f64, rng: &mut Rng) -> String {
        if x == 0.0 && x.is_sign_negative() { return "-0.0".into(); }
        match rng.below(3) { 0 => format!("{x:e}"), 1 if x.fract() == 0.0 && x.abs() < 1e15 => format!("{}", x as i64), _ => { let t = format!("{x}"); if t.contains('.') || t.contains('e') { t } else { format!("{t}.0") } } }
    }
    fn dict(d: &Dict, rng: &mut Rng, kind: bool) -> String {
        let mut m: Vec<(String, String)> = d.iter().map(|(k, v)| (k.clone(), value(v, rng))).collect();
        if kind { m.push(("_kind".into(), js("dict"))); }
        obj(m, rng)
    }
    pub fn value(v: &Value, rng: &mut Rng) -> String {
        let k = |name: &str| ("_kind".to_string(), js(name));
        match v {
            Value::Null => "null".into(), Value::Bool(b) => b.value.to_string(), Value::Str(s) => js(&s.value),
            Value::Marker => obj(vec![k("marker")], rng), Value::Remove => obj(vec![k("remove")], rng), Value::Na => obj(vec![k("na")], rng),
            Value::Number(n) => {
                let special = if n.value.is_nan() { Some("NaN") } else if n.value == f64::INFINITY { Some("INF") } else if n.value == f64::NEG_INFINITY { Some("-INF") } else { None };
                match (special, n.unit) {
                    (Some(t), _) => obj(vec![k("number"), ("val".into(), js(t))], rng),
                    (None, None) => if rng.below(4) == 0 { obj(vec![k("number"), ("val".into(), num(n.value, rng))], rng) } else { num(n.value, rng) },
                    (None, Some(u)) => obj(vec![k("number"), ("val".into(), num(n.value, rng)), ("unit".into(), js(u.symbol()))], rng) } }
            Value::Ref(r) => { let mut m = vec![k("ref"), ("val".into(), js(&r.value))]; if let Some(d) = &r.dis { m.push(("dis".into(), js(d))); } obj(m, rng) }
            Value::Symbol(x) => obj(vec![k("symbol"), ("val".into(), js(&x.value))], rng),
            Value::Uri(x) => obj(vec![k("uri"), ("val".into(), js(&x.value))], rng),
            Value::XStr(x) => obj(vec![k("xstr"), ("type".into(), js(&x.r#type)), ("val".into(), js(&x.value))], rng),
            Value::Coord(c) => obj(vec![k("coord"), ("lat".into(), num(c.lat, rng)), ("lng".into(), num(c.long, rng))], rng),
            Value::Date(d) => obj(vec![k("date"), ("val".into(), js(&d.to_string()))], rng),
            Value::Time(t) => obj(vec![k("time"), ("val".into(), js(&t.to_string()))], rng),
            Value::DateTime(d) => { let iso = { use libhaystack::encoding::zinc::encode::ToZinc; v.to_zinc_string().unwrap().split(' ').next().unwrap().to_string() }; let mut m = vec![k("dateTime"), ("val".into(), js(&iso))];
                if !d.is_utc() { m.push(("tz".into(), js(&d.timezone_short_name()))); } else if rng.below(2) == 0 { m.push(("tz".into(), js("UTC"))); } obj(m, rng) }
            Value::List(l) => format!("[{}]", l.iter().map(|e| value(e, rng)).collect::<Vec<_>>().join(",")),
            Value::Dict(d) => { let k = rng.below(3) == 0; dict(d, rng, k) }
            Value::Grid(g) => grid(g, rng),
        }
    }
    fn grid(g: &Grid, rng: &mut Rng) -> String {
        let mut meta: Vec<(String, String)> = g.meta.iter().flat_map(|m| m.iter()).map(|(k, v)| (k.clone(), value(v, rng))).collect();
        let with_ver = g.ver != "3.0" || rng.below(2) == 0;
        if with_ver { meta.push(("ver".into(), js(&g.ver))); }
        let mut m = vec![("_kind".to_string(), js("grid"))];
        if with_ver || !meta.is_empty() || rng.below(2) == 0 { m.push(("meta".into(), obj(meta, rng))); }
        let cols: Vec<String> = g.columns.iter().map(|c| { let mut cm = vec![("name".to_string(), js(&c.name))];
            match &c.meta { Some(d) if !d.is_empty() => cm.push(("meta".into(), dict(d, rng, false))), _ => if rng.below(3) == 0 { cm.push(("meta".into(), "{}".into())); } } obj(cm, rng) }).collect();
        m.push(("cols".into(), format!("[{}]", cols.join(","))));
        let rows: Vec<String> = g.rows.iter().map(|r| dict(r, rng, false)).collect();
        m.push(("rows".into(), format!("[{}]", rows.join(","))));
        obj(m, rng)
    }
}

fn main() {
    let args: Vec<String> = std::env::args().collect();
    let fam = args.get(1).map(|s| s.as_str()).unwrap_or("");
    match fam {
        // decode a Zinc document given as hex bytes
        "zinc" => {
            let bytes = unhex(&args[2]);
            let mut cur = std::io::Cursor::new(bytes);
            let r = libhaystack::encoding::zinc::decode::parser::Parser::make(&mut cur).and_then(|mut p| p.parse_value());
            println!("RESULT zinc {}", match r { Ok(v) => format!("ok {:?}", v), Err(e) => format!("err {e}") });
        }
        "zinc-str" => {
            let r = from_str(&args[2]);
            println!("RESULT zinc {}", match r { Ok(v) => format!("ok {:?}", v), Err(e) => format!("err {e}") });
        }
        // parse a filter given as hex bytes (must be utf-8)
        "filter" => {
            let bytes = unhex(&args[2]);
            let s = String::from_utf8_lossy(&bytes).to_string();
            let r = Filter::try_from(s.as_str());
            println!("RESULT filter {}", match r { Ok(f) => format!("ok {f}"), Err(e) => format!("err {e}") });
        }
        // ---- C02/C05: Number through serde_json and back; exit 3 = value or kind changed
        "json-number" => {
            let v = args[2].parse::<f64>().unwrap();
            let n = match args.get(3) { Some(u) => Value::make_number_unit(v, libhaystack::units::get_unit(u).expect("unit")), None => Value::make_number(v) };
            let j = serde_json::to_string(&n).unwrap();
            let back = serde_json::from_str::<Value>(&j);
            let same = match (&back, &n) {
                (Ok(Value::Number(b)), Value::Number(a)) => (b.value.to_bits() == a.value.to_bits() || (a.value.is_nan() && b.value.is_nan())) && b.unit == a.unit,
                _ => false,
            };
            println!("RESULT json-number {v:e} -> {j} -> {back:?} same={same}");
            if !same { std::process::exit(3); }
        }
        // ---- C04/C01 enumerator: every escape of the Zinc grammar's string escape table, decoded by the real reader
        "enum:zinc-escape" => {
            let table: [(&str, char); 8] = [("b", '\u{8}'), ("f", '\u{c}'), ("n", '\n'), ("r", '\r'), ("t", '\t'), ("\"", '"'), ("\\", '\\'), ("$", '$')];
            for (letter, want) in table {
                let text = format!("\"\\{letter}\"");
                let got = from_str(&text);
                let ok = matches!(&got, Ok(Value::Str(s)) if s.value.chars().eq([want]));
                if !ok {
                    println!("RESULT enum:zinc-escape input={text:?} decoded={got:?} expected={:?}", want.to_string());
                    std::process::exit(3);
                }
            }
            for cu in [0x0041u32, 0x00e9, 0x2665, 0x0008, 0xffff] {
                let text = format!("\"\\u{cu:04x}\"");
                let got = from_str(&text);
                let want = char::from_u32(cu).unwrap();
                let ok = matches!(&got, Ok(Value::Str(s)) if s.value.chars().eq([want]));
                if !ok {
                    println!("RESULT enum:zinc-escape input={text:?} decoded={got:?} expected={:?}", want.to_string());
                    std::process::exit(3);
                }
            }
            {
                use libhaystack::encoding::zinc::encode::ToZinc;
                let all = composite_samples();
                let mut bad = false;
                // the last sample (rows without columns) has no Zinc spelling that keeps its rows; it is for the panic enumerator only
                for v in &all[..all.len() - 1] {
                    let z = v.to_zinc_string();
                    let back = z.as_ref().ok().map(|z| from_str(z));
                    if !matches!(&back, Some(Ok(b)) if b == v && format!("{b:?}") == format!("{v:?}")) {
                        println!("RESULT enum:zinc-escape composite value={v:?} zinc={z:?} decoded={back:?}");
                        bad = true;
                    }
                }
                if bad { std::process::exit(3); }
            }
            println!("RESULT enum:zinc-escape all grammar escapes decode as the grammar says; composite samples come back through the writer and reader");
        }
        // ---- C01: encode to Zinc, decode, compare; args: kind + payload strings (hex utf-8); exit 3 = not identical
        "zinc-roundtrip" => {
            use libhaystack::encoding::zinc::encode::ToZinc;
            let st = |i: usize| String::from_utf8_lossy(&unhex(&args[i])).to_string();
            let v = match args[2].as_str() {
                "str" => Value::make_str(&st(3)),
                "uri" => Value::make_uri(&st(3)),
                "ref" => Value::make_ref(&st(3)),
                "refdis" => Value::make_ref_with_dis(&st(3), &st(4)),
                "symbol" => Value::make_symbol(&st(3)),
                "xstr" => Value::make_xstr_from(&st(3), &st(4)),
                k => { eprintln!("unknown kind {k}"); std::process::exit(2); }
            };
            let z = v.to_zinc_string();
            let back = z.as_ref().ok().map(|z| from_str(z));
            let same = match (&back, &v) {
                (Some(Ok(Value::Ref(b))), Value::Ref(a)) => a.value == b.value && a.dis == b.dis,
                (Some(Ok(b)), a) => a == b,
                _ => false,
            };
            println!("RESULT zinc-roundtrip value={v:?} zinc={z:?} back={back:?} same={same}");
            if !same { std::process::exit(3); }
        }
        // ---- C10 enumerator: scalar values with empty / non-ASCII / odd strings through every encoder; a panic exits 101
        // ---- C02 enumerator: composite samples through the real Hayson writer and reader; exit 3 when one does not come back
        "enum:hayson-roundtrip" => {
            let all = composite_samples();
            let mut bad = false;
            for v in &all[..all.len() - 1] {
                let j = serde_json::to_string(v);
                let back = j.as_ref().ok().map(|j| serde_json::from_str::<Value>(j));
                if !matches!(&back, Some(Ok(b)) if norm(b) == norm(v) && format!("{:?}", norm(b)) == format!("{:?}", norm(v))) {
                    println!("RESULT enum:hayson-roundtrip value={v:?} json={j:?} decoded={back:?}");
                    bad = true;
                }
            }
            // object members in any order: `_kind` last or in the middle denotes the same value
            let docs: [(&str, Value); 8] = [
                (r#"{"val":"abc","_kind":"ref","dis":"Abc"}"#, Value::make_ref_with_dis("abc", "Abc")),
                (r#"{"val":"abc","dis":"Abc","_kind":"ref"}"#, Value::make_ref_with_dis("abc", "Abc")),
                (r#"{"val":42.5,"unit":"m","_kind":"number"}"#, Value::make_number_unit(42.5, libhaystack::units::get_unit_or_default("m"))),
                (r#"{"lat":45.0,"_kind":"coord","lng":23.0}"#, Value::make_coord_from(45.0, 23.0)),
                (r#"{"val":"s","_kind":"symbol"}"#, Value::make_symbol("s")),
                (r#"{"val":"u","_kind":"uri"}"#, Value::make_uri("u")),
                (r#"{"val":"v","type":"T","_kind":"xstr"}"#, Value::make_xstr_from("T", "v")),
                (r#"{"val":"2021-06-19","_kind":"date"}"#, Value::make_date(libhaystack::val::Date::from_ymd(2021, 6, 19).unwrap())),
            ];
            for (doc, want) in &docs {
                let got = serde_json::from_str::<Value>(doc);
                if !matches!(&got, Ok(g) if g == want && format!("{g:?}") == format!("{want:?}")) {
                    println!("RESULT enum:hayson-roundtrip document={doc} decoded={got:?} expected={want:?}");
                    bad = true;
                }
            }
            if bad { std::process::exit(3); }
            println!("RESULT enum:hayson-roundtrip composite samples come back through the Hayson writer and reader; members are read in any order");
        }
        "enum:zinc-encode-panics" => {
            use libhaystack::encoding::zinc::encode::ToZinc;
            let strs = ["", "a", "é", "éa", "a\"b", "\\", "$", "\u{0}", "😀", " ", "A", "ab"];
            let mut n = 0;
            for a in strs { for b in strs {
                for v in [Value::make_str(a), Value::make_uri(a), Value::make_ref(a), Value::make_ref_with_dis(a, b), Value::make_symbol(a),
                          Value::make_xstr_from(a, b)] {
                    let _ = v.to_zinc_string();
                    let _ = serde_json::to_string(&v);
                    let _ = format!("{v}");
                    n += 1;
                }
            } }
            for x in [0.0, -0.0, 1e300, f64::NAN, f64::INFINITY, f64::NEG_INFINITY, 1.5, -1e-300] {
                let v = Value::make_number(x); let _ = v.to_zinc_string(); let _ = serde_json::to_string(&v); n += 1;
                let v = Value::make_coord_from(x, -x); let _ = v.to_zinc_string(); let _ = serde_json::to_string(&v); n += 1;
            }
            for v in composite_samples() {
                let _ = v.to_zinc_string(); let _ = serde_json::to_string(&v); let _ = format!("{v}"); n += 1;
            }
            println!("RESULT enum:zinc-encode-panics {n} scalar and composite values encoded to Zinc, Hayson and display text without a panic");
        }
        // ---- C17 enumerator: list handles against Vec semantics, all ops x indices 0..=5 on lists of length 0..=4; exit 3 on mismatch
        "enum:capi-list" => unsafe {
            use libhaystack::c_api::list::*;
            use libhaystack::c_api::value::*;
            use libhaystack::c_api::ResultType;
            let items = [Value::make_int(1), Value::make_str("s"), Value::make_marker(), Value::make_int(4)];
            for len in 0..=4usize { for idx in 0..=5usize { for op in 0..3 {
                let mut model: Vec<Value> = items[..len].to_vec();
                let h = Box::into_raw(haystack_value_make_list());
                for it in &model { let e = Box::into_raw(Box::new(it.clone())); haystack_value_push_list_entry(h, e); drop(Box::from_raw(e)); }
                let e = Box::into_raw(Box::new(Value::make_na()));
                let (r, name) = match op {
                    0 => (haystack_value_set_list_entry_at(h, idx, e), "set"),
                    1 => (haystack_value_remove_list_entry_at(h, idx), "remove"),
                    _ => (haystack_value_push_list_entry(h, e), "push"),
                };
                let want_ok = match op { 0 => { if idx < len { model[idx] = Value::make_na(); true } else { false } }
                                         1 => { if idx < len { model.remove(idx); true } else { false } }
                                         _ => { model.push(Value::make_na()); true } };
                let got: Vec<Value> = match &*h { Value::List(l) => l.clone(), _ => vec![] };
                let ok = (r == ResultType::TRUE) == want_ok && got == model && haystack_value_get_list_len(h) == model.len();
                if !ok {
                    println!("RESULT enum:capi-list op={name} index={idx} on a list of {len}: returned {r:?}, handle now {got:?}, Vec semantics {model:?}");
                    std::process::exit(3);
                }
                drop(Box::from_raw(e)); drop(Box::from_raw(h));
            } } }
            // scalar getters and kind tests against the Rust API on sample values
            {
                use libhaystack::c_api::coord::*; use libhaystack::c_api::date::*; use libhaystack::c_api::datetime::*;
                use libhaystack::c_api::number::*; use libhaystack::c_api::time::*;
                let fail = |what: &str| { println!("RESULT enum:capi-list getter {what} disagrees with the Rust API"); std::process::exit(3); };
                let t = Value::make_time(libhaystack::val::Time::from_hms_milli(1, 2, 3, 4).unwrap());
                if haystack_value_get_time_hour(&t) != 1 || haystack_value_get_time_minutes(&t) != 2 || haystack_value_get_time_seconds(&t) != 3
                    || haystack_value_get_time_millis(&t) != 4 { fail("time h/m/s/ms of 01:02:03.004"); }
                let d = Value::make_date(libhaystack::val::Date::from_ymd(2021, 6, 19).unwrap());
                if haystack_value_get_date_year(&d) != 2021 || haystack_value_get_date_month(&d) != 6 || haystack_value_get_date_day(&d) != 19 { fail("date y/m/d of 2021-06-19"); }
                let c = Value::make_coord_from(1.5, -2.5);
                if haystack_value_get_coord_lat(&c) != 1.5 || haystack_value_get_coord_long(&c) != -2.5 { fail("coord lat/long of C(1.5,-2.5)"); }
                if !haystack_value_get_coord_long(&t).is_nan() || !haystack_value_get_number_value(&t).is_nan() { fail("NaN sentinel on a handle of another kind"); }
                if haystack_value_get_time_hour(&d) != u32::MAX || haystack_value_get_date_day(&t) != u32::MAX { fail("u32::MAX sentinel on a handle of another kind"); }
                let kinds: [(&Value, usize); 4] = [(&t, 0), (&d, 1), (&c, 2), (&Value::make_xstr_from("T", "v"), 3)];
                for (v, k) in kinds {
                    let got = [haystack_value_is_time(v), haystack_value_is_date(v), haystack_value_is_coord(v), haystack_value_is_xstr(v)];
                    for (i, g) in got.iter().enumerate() { if *g != (i == k) { fail("kind test (time/date/coord/xstr)"); } }
                }
                // 23:30 at -04:00 is the 19th locally and the 20th in UTC
                let dt = Value::make_datetime(libhaystack::val::DateTime::parse_from_rfc3339_with_timezone("2021-06-19T23:30:00-04:00", "New_York").unwrap());
                for (utc, day, hour) in [(true, 20, 3), (false, 19, 23)] {
                    let r = Box::into_raw(haystack_value_init());
                    if haystack_value_get_datetime_date(&dt, utc, r) != ResultType::TRUE || haystack_value_get_date_day(r) != day { fail("datetime date (utc flag)"); }
                    if haystack_value_get_datetime_time(&dt, utc, r) != ResultType::TRUE || haystack_value_get_time_hour(r) != hour { fail("datetime time (utc flag)"); }
                    drop(Box::from_raw(r));
                }
            }
            // dict handles against map semantics
            {
                use libhaystack::c_api::dict::*;
                let fail = |what: &str| { println!("RESULT enum:capi-list dict handle: {what}"); std::process::exit(3); };
                let d = Box::into_raw(haystack_value_make_dict());
                let k = |s: &str| std::ffi::CString::new(s).unwrap();
                let e1 = Box::into_raw(Box::new(Value::make_int(1)));
                let e2 = Box::into_raw(Box::new(Value::make_str("two")));
                if haystack_value_insert_dict_entry(d, k("a").as_ptr(), e1) != ResultType::TRUE || haystack_value_insert_dict_entry(d, k("b").as_ptr(), e2) != ResultType::TRUE { fail("insert"); }
                if haystack_value_insert_dict_entry(d, k("a").as_ptr(), e2) != ResultType::TRUE || haystack_value_get_dict_len(d) != 2 { fail("insert on an existing key replaces"); }
                let mut out: *const Value = std::ptr::null();
                if haystack_value_get_dict_entry(d, k("a").as_ptr(), &mut out) != ResultType::TRUE || *out != Value::make_str("two") { fail("get of a present key"); }
                if haystack_value_get_dict_entry(d, k("zz").as_ptr(), &mut out) != ResultType::FALSE { fail("get of a missing key must be FALSE, not an error"); }
                if haystack_value_remove_dict_entry(d, k("a").as_ptr()) != ResultType::TRUE || haystack_value_get_dict_len(d) != 1 { fail("remove"); }
                if haystack_value_get_dict_entry(d, k("a").as_ptr(), &mut out) != ResultType::FALSE { fail("get after remove"); }
                if haystack_value_get_dict_len(e1) != usize::MAX { fail("len of a non-dict handle"); }
                drop(Box::from_raw(e1)); drop(Box::from_raw(e2)); drop(Box::from_raw(d));
            }
            println!("RESULT enum:capi-list list handles agree with Vec semantics on all small cases; scalar getters and kind tests agree with the Rust API on the samples; dict handles agree with map semantics");
        },
        // ---- C01 enumerator: scalar values through the real Zinc writer and reader; exit 3 on the first that does not come back
        "enum:zinc-roundtrip-scalars" => {
            use libhaystack::encoding::zinc::encode::ToZinc;
            let strs = ["", "a", "é", "a\"b", "\\", "$", "\t\r\n", "\u{1}", "😀", " x ", "a`b"];
            let mut vals = vec![Value::Marker, Value::Remove, Value::Na, Value::Null, Value::make_true(), Value::make_false()];
            for a in strs { vals.push(Value::make_str(a)); vals.push(Value::make_ref_with_dis("r", a)); vals.push(Value::make_xstr_from("Bin", a)); }
            for a in ["a", "a.b:c-d~e_f", "x1"] { vals.push(Value::make_ref(a)); vals.push(Value::make_symbol(a)); }
            for a in ["/a/b", "http://x/é?q=1#f", "a`b", "a😀", "a\\b", "\\", "a\\:b\\`c", "[x]@y&z=1;2"] { vals.push(Value::make_uri(a)); }
            // numbers: every component incl. the sign of zero, subnormals, 1e21-class magnitudes, the non-finite ones, units
            let kg = libhaystack::units::get_unit_or_default("kg"); let pct = libhaystack::units::get_unit_or_default("%");
            // units whose symbol starts with or contains a character other than a letter
            for u in ["/h", "/s", "$", "\u{b0}F", "m\u{b2}", "kW/ft\u{b2}", "_/h", "%RH", "\u{3a9}", "\u{20ac}"] {
                if let Some(unit) = libhaystack::units::get_unit(u) { vals.push(Value::make_number_unit(12.5, unit)); vals.push(Value::make_number_unit(-3.0, unit)); }
            }
            for x in [0.0f64, -0.0, 1.0, -1.0, 0.5, -2.25, 1e-7, 5e-324, 2.2250738585072014e-308, 1e21, 123456789012345680000.0, 9007199254740993.0,
                      9223372036854775807.0, -9223372036854775808.0, 1.7976931348623157e308, -1.7976931348623157e308, 0.1 + 0.2, f64::NAN, f64::INFINITY, f64::NEG_INFINITY] {
                vals.push(Value::make_number(x));
                if x.is_finite() { vals.push(Value::make_number_unit(x, kg)); vals.push(Value::make_number_unit(x, pct)); }
                if x.is_finite() && x.abs() <= 90.0 { vals.push(Value::make_coord_from(x, -x)); vals.push(Value::make_coord_from(-x, 2.0 * x)); }
            }
            for v in &vals {
                let z = v.to_zinc_string();
                let back = z.as_ref().ok().map(|z| from_str(z));
                let same = match (&back, v) {
                    (Some(Ok(Value::Ref(b))), Value::Ref(a)) => a.value == b.value && a.dis == b.dis,
                    (Some(Ok(b)), Value::Number(_)) | (Some(Ok(b)), Value::Coord(_)) => format!("{b:?}") == format!("{v:?}"),
                    (Some(Ok(b)), a) => a == b,
                    _ => false,
                };
                if !same {
                    println!("RESULT enum:zinc-roundtrip-scalars value={v:?} zinc={z:?} decoded={back:?}");
                    std::process::exit(3);
                }
            }
            println!("RESULT enum:zinc-roundtrip-scalars {} scalar values survive Zinc encode/decode", vals.len());
        }
        // ---- C15 enumerator (exhaustive over the database): every identifier of every unit looks up a unit that has that
        // identifier and equals the unit looked up by its first name; a Number with that unit survives Zinc and Hayson
        "enum:units-roundtrip" => {
            use libhaystack::encoding::zinc::encode::ToZinc;
            use libhaystack::units::get_unit;
            let mut n = 0;
            for (id, unit) in libhaystack::units::units_generated::UNITS.iter() {
                let looked = get_unit(id);
                let ok_lookup = matches!(looked, Some(u) if u.ids.iter().any(|i| i == id) && std::ptr::eq(u, *unit));
                if !ok_lookup { println!("RESULT enum:units-roundtrip lookup of {id:?} gives {:?}", looked.map(|u| u.ids.clone())); std::process::exit(3); }
                for other in unit.ids.iter() {
                    if get_unit(other).map(|u| std::ptr::eq(u, *unit)) != Some(true) {
                        println!("RESULT enum:units-roundtrip identifier {other:?} of unit {:?} looks up {:?}", unit.ids, get_unit(other).map(|u| u.ids.clone()));
                        std::process::exit(3);
                    }
                }
                let v = Value::make_number_unit(2.5, unit);
                let z = v.to_zinc_string().unwrap_or_default();
                let back = from_str(&z);
                if !matches!(&back, Ok(Value::Number(b)) if b.unit == Some(*unit) && b.value == 2.5) {
                    println!("RESULT enum:units-roundtrip unit {:?}: zinc {z:?} decodes to {back:?}", unit.ids); std::process::exit(3);
                }
                let j = serde_json::to_string(&v).unwrap_or_default();
                let back = serde_json::from_str::<Value>(&j);
                if !matches!(&back, Ok(Value::Number(b)) if b.unit == Some(*unit) && b.value == 2.5) {
                    println!("RESULT enum:units-roundtrip unit {:?}: hayson {j} decodes to {back:?}", unit.ids); std::process::exit(3);
                }
                n += 1;
            }
            println!("RESULT enum:units-roundtrip {n} identifiers: lookup, Zinc and Hayson round trips agree");
        }
        // ---- C16 enumerator: every ordered pair of database units: conversion succeeds exactly for equal dimensions (byte units among
        //      themselves), equals (x*scale_a + offset_a - offset_b) / scale_b, comes back within rounding; anchors with known physical
        //      values; + and - of Numbers fail exactly for two different units and otherwise keep the common unit; exit 3 on a mismatch
        "enum:unit-convert" => {
            use libhaystack::units::get_unit;
            use libhaystack::val::Number;
            let mut units: Vec<&'static libhaystack::units::Unit> = vec![];
            for (_, u) in libhaystack::units::units_generated::UNITS.iter() { if !units.iter().any(|x| std::ptr::eq(*x, *u)) { units.push(*u); } }
            let close = |a: f64, b: f64| (a - b).abs() <= 1e-9 * (1.0 + a.abs().max(b.abs()));
            let x = 12.5f64;
            let mut pairs = 0usize;
            for a in &units { for b in &units {
                let same_dim = a.dimensions == b.dimensions || (a.is_byte_unit() && b.is_byte_unit());
                let r = a.convert_to(x, b);
                pairs += 1;
                match r {
                    Ok(y) => {
                        let want = ((x * a.scale + a.offset) - b.offset) / b.scale;
                        let back = b.convert_to(y, a);
                        if !same_dim || !(close(y, want) || (y.is_nan() && want.is_nan())) || !matches!(back, Ok(z) if close(z, x) || !z.is_finite() || !y.is_finite()) {
                            println!("RESULT enum:unit-convert {x} {:?} -> {:?} = {y} (expected {want}, same dimension: {same_dim}), back = {back:?}", a.ids, b.ids);
                            std::process::exit(3);
                        }
                    }
                    Err(_) => if same_dim {
                        println!("RESULT enum:unit-convert {:?} -> {:?} refused although both measure the same dimension", a.ids, b.ids);
                        std::process::exit(3);
                    }
                }
            } }
            let u = |s: &str| get_unit(s).unwrap_or_else(|| panic!("unit {s}"));
            for (from, v, to, want) in [("celsius", 100.0, "fahrenheit", 212.0), ("celsius", 0.0, "kelvin", 273.15), ("kelvin", 273.15, "fahrenheit", 32.0),
                                        ("fahrenheit", 212.0, "celsius", 100.0), ("kilowatt", 1.0, "watt", 1000.0), ("hour", 1.0, "second", 3600.0), ("kilometer", 1.0, "meter", 1000.0)] {
                let got = u(from).convert_to(v, u(to));
                if !matches!(got, Ok(g) if (g - want).abs() < 1e-6 * (1.0 + want.abs())) {
                    println!("RESULT enum:unit-convert {v} {from} -> {to} = {got:?}, the physical value is {want}");
                    std::process::exit(3);
                }
            }
            // + and -: same unit, one side without unit, two different units (incl. different units with the same numeric definition)
            let mut sums = 0usize;
            let sample: Vec<&'static libhaystack::units::Unit> = units.iter().copied().filter(|a| units.iter().any(|b| !std::ptr::eq(*a, *b) && a.dimensions == b.dimensions && a.scale == b.scale && a.offset == b.offset)).take(40)
                .chain(units.iter().copied().take(25)).collect();
            for a in &sample { for b in &sample {
                let (na, nb) = (Number::make_with_unit(3.0, a), Number::make_with_unit(2.0, b));
                let differ = !std::ptr::eq(*a, *b) && **a != **b;
                for (r, want) in [(na + nb, 5.0), (na - nb, 1.0)] {
                    sums += 1;
                    let ok = match &r { Ok(n) => !differ && n.value == want && n.unit == Some(*a), Err(_) => differ };
                    if !ok { println!("RESULT enum:unit-convert 3 {:?} (+/-) 2 {:?} = {r:?}; different units: {differ}", a.ids, b.ids); std::process::exit(3); }
                }
            } }
            let plain = Number::make(2.0);
            let with = Number::make_with_unit(3.0, u("meter"));
            if !matches!(with + plain, Ok(n) if n.value == 5.0 && n.unit == Some(u("meter"))) || !matches!(plain + with, Ok(n) if n.value == 5.0 && n.unit == Some(u("meter"))) {
                println!("RESULT enum:unit-convert 3m + 2 must keep the unit of the side that has one"); std::process::exit(3);
            }
            println!("RESULT enum:unit-convert {pairs} unit pairs, 7 physical anchors, {sums} sums and differences agree");
        }
        // ---- C05 reader numbers: raw bytes of the harness inputs (which, value) -> the JSON spelling serde_json would hand over
        "json-visit" => {
            let which = unhex(&args[2])[0];
            let raw = unhex(&args[3]);
            let mut b8 = [0u8; 8]; for (i, x) in raw.iter().enumerate().take(8) { b8[i] = *x; }
            let (text, want) = match which {
                0 => { let x = raw[0] as i8; (format!("{x}"), x as f64) }
                1 => { let x = i16::from_le_bytes([raw[0], raw[1]]); (format!("{x}"), x as f64) }
                2 => { let x = i32::from_le_bytes([raw[0], raw[1], raw[2], raw[3]]); (format!("{x}"), x as f64) }
                3 => { let x = i64::from_le_bytes(b8); (format!("{x}"), x as f64) }
                4 => { let x = raw[0]; (format!("{x}"), x as f64) }
                5 => { let x = u16::from_le_bytes([raw[0], raw[1]]); (format!("{x}"), x as f64) }
                6 => { let x = u32::from_le_bytes([raw[0], raw[1], raw[2], raw[3]]); (format!("{x}"), x as f64) }
                7 => { let x = u64::from_le_bytes(b8); (format!("{x}"), x as f64) }
                _ => { let x = f64::from_le_bytes(b8); (format!("{x:e}"), x) }
            };
            if !want.is_finite() { println!("RESULT json-visit {want} has no JSON number spelling; not replayable"); return; }
            let got = serde_json::from_str::<Value>(&text);
            let same = matches!(&got, Ok(Value::Number(n)) if n.unit.is_none() && n.value == want);
            println!("RESULT json-visit {text} -> {got:?} expected {want:e} same={same}");
            if !same { std::process::exit(3); }
        }
        // ---- C08 enumerator: filters (incl. literals of awkward magnitude and strings with escapes) printed then parsed again
        "enum:filter-print-parse" => {
            let texts = ["a", "not a", "a and b", "a or b and c", "(a or b) and c", "a->b->c", "a->b and c", "a == 1", "a != -1.5", "a < 10000000000000000000",
                "a >= 1e300", "a == 1e-7", "a > 9223372036854775808kWh", "a == \"s\"", "a == \"q\\\"t\\\\b$x\"", "a == @r", "a == ^s", "a == `u`", "a == true",
                "a == 2021-06-01", "a == 12:30:00", "a *== @r", "a <= 5m", "x and (y or (z and not w))",
                // literals of every kind the filter syntax admits: refs with display names, timestamps with zones, fractional times, escapes
                "a == @r \"Dis\" and b", "equipRef == @p:demo:r:1 \"Main AHU\" and point", "(siteRef == @s \"Site 1\") and equip", "a *== @p:demo:r:1 \"Main AHU\"",
                "a == 2021-06-01T12:00:00-04:00 New_York", "a == 2021-06-01T12:00:00Z", "a == 2021-06-01T12:00:00.5+05:30 Kolkata and b", "a == 12:30:00.5", "a == false",
                "a == \"\\u00e9\\n\\t\"", "a == `http://x/y?z=1&w=2`", "a == 50%", "a != ^s:t-u", "^sym", "^sym and a", "hvac?", "hvac? ^air", "hvac? ^air @r", "inputs? @r \"R 1\"", "inputs? @r and b",
                "a->b == 1 or c->d->e != \"x\"", "not a->b", "not a and not b or not c", "((a))", "(a) or (b)"];
            for t in texts {
                let f = match Filter::try_from(t) { Ok(f) => f, Err(e) => { println!("RESULT enum:filter-print-parse {t:?} does not parse: {e}"); std::process::exit(3); } };
                let printed = f.to_string();
                let again = Filter::try_from(printed.as_str());
                if !matches!(&again, Ok(g) if *g == f) {
                    println!("RESULT enum:filter-print-parse {t:?} prints as {printed:?}, which parses to {:?}", again.map(|g| g.to_string()));
                    std::process::exit(3);
                }
            }
            // the tree the grammar prescribes: `and` binds tighter than `or`, parentheses group, a path ends at the first token that is not ->
            {
                use libhaystack::filter::nodes::Term;
                let shape = |t: &str| -> String {
                    fn or_s(o: &libhaystack::filter::nodes::Or) -> String { format!("or[{}]", o.ands.iter().map(|a| format!("and[{}]", a.terms.iter().map(term_s).collect::<Vec<_>>().join(","))).collect::<Vec<_>>().join(",")) }
                    fn term_s(t: &Term) -> String { match t {
                        Term::Parens(p) => format!("({})", or_s(&p.or)), Term::Has(h) => format!("has:{}", h.path.len()), Term::Missing(m) => format!("not:{}", m.path.len()),
                        Term::Cmp(c) => format!("cmp:{}", c.path.len()), Term::IsA(_) => "isa".into(), Term::WildcardEq(_) => "weq".into(), Term::Relation(_) => "rel".into() } }
                    match Filter::try_from(t) { Ok(f) => or_s(&f.or), Err(e) => format!("error {e}") }
                };
                for (t, want) in [("a or b and c", "or[and[has:1],and[has:1,has:1]]"), ("a and b or c", "or[and[has:1,has:1],and[has:1]]"),
                                  ("(a or b) and c", "or[and[(or[and[has:1],and[has:1]]),has:1]]"), ("a->b->c and d", "or[and[has:3,has:1]]"),
                                  ("not a->b or c == 1", "or[and[not:2],and[cmp:1]]"), ("a and (b or c and d)", "or[and[has:1,(or[and[has:1],and[has:1,has:1]])]]")] {
                    let got = shape(t);
                    if got != want { println!("RESULT enum:filter-print-parse {t:?} parses to the shape {got}, the grammar prescribes {want}"); std::process::exit(3); }
                }
            }
            // nesting depth is a budget per nesting level, not per filter: many groups one after the other must parse
            let many = (0..150).map(|i| format!("(a{i} or b)")).collect::<Vec<_>>().join(" and ");
            if let Err(e) = Filter::try_from(many.as_str()) {
                println!("RESULT enum:filter-print-parse 150 parenthesised groups in sequence do not parse: {e}");
                std::process::exit(3);
            }
            println!("RESULT enum:filter-print-parse {} filters survive print-then-parse", texts.len());
        }
        // ---- C12 enumerator: the laws on a set of values with deliberate near-collisions, all pairs and triples; exit 3 on a violated law
        "enum:eq-laws" => {
            use libhaystack::val::Dict;
            let unit = |s: &str| libhaystack::units::get_unit_or_default(s);
            let mk = |pairs: &[(&str, Value)]| { let mut d = Dict::new(); for (k, v) in pairs { d.insert((*k).into(), v.clone()); } d };
            let dt = |s: &str, tz: &str| Value::make_datetime(libhaystack::val::DateTime::parse_from_rfc3339_with_timezone(s, tz).unwrap());
            let vals: Vec<Value> = vec![
                Value::Null, Value::Marker, Value::Na, Value::Remove, Value::make_true(), Value::make_false(),
                Value::make_number(0.0), Value::make_number(-0.0), Value::make_number(1.0), Value::make_number(2.0),
                Value::make_number_unit(1.0, unit("m")), Value::make_number_unit(1.0, unit("ft")), Value::make_number_unit(2.0, unit("m")),
                Value::make_str("a"), Value::make_uri("a"), Value::make_symbol("a"), Value::make_ref("a"), Value::make_ref_with_dis("a", "A"),
                Value::make_ref_with_dis("a", "B"), Value::make_ref("b"), Value::make_xstr_from("A", "a"),
                Value::make_coord_from(0.0, -0.0), Value::make_coord_from(-0.0, 0.0), Value::make_coord_from(1.0, 2.0),
                Value::make_list(vec![]), Value::make_list(vec![Value::make_int(1)]), Value::make_list(vec![Value::make_int(1), Value::make_int(2)]),
                Value::make_list(vec![Value::make_number_unit(1.0, unit("m"))]),
                Value::make_dict(mk(&[])), Value::make_dict(mk(&[("a", Value::make_int(2))])), Value::make_dict(mk(&[("a", Value::make_int(1)), ("c", Value::make_int(1))])),
                Value::make_dict(mk(&[("a", Value::make_int(2)), ("b", Value::make_int(1))])), Value::make_dict(mk(&[("a", Value::make_int(1))])),
                // records: dicts with the tags the library itself gives a meaning to (id, dis, mod), with ids ordered against the other keys
                Value::make_dict(mk(&[("id", Value::make_ref("r1"))])), Value::make_dict(mk(&[("id", Value::make_ref("r2"))])),
                Value::make_dict(mk(&[("id", Value::make_ref_with_dis("r1", "One"))])),
                Value::make_dict(mk(&[("a", Value::Marker), ("id", Value::make_ref("r2"))])), Value::make_dict(mk(&[("b", Value::Marker)])),
                Value::make_dict(mk(&[("c", Value::Marker), ("id", Value::make_ref("r1"))])),
                Value::make_dict(mk(&[("dis", Value::make_str("z")), ("id", Value::make_ref("r1"))])), Value::make_dict(mk(&[("dis", Value::make_str("a")), ("id", Value::make_ref("r2"))])),
                Value::make_dict(mk(&[("id", Value::make_str("r1"))])),
                Value::make_date(libhaystack::val::Date::from_ymd(2021, 1, 19).unwrap()), Value::make_date(libhaystack::val::Date::from_ymd(2021, 1, 20).unwrap()),
                Value::make_time(libhaystack::val::Time::from_hms(19, 48, 23).unwrap()), Value::make_time(libhaystack::val::Time::from_hms(19, 48, 24).unwrap()),
                dt("2021-01-19T19:48:23Z", "UTC"), dt("2021-01-19T19:48:23Z", "London"), dt("2021-01-19T14:48:23-05:00", "New_York"), dt("2021-01-19T19:48:24Z", "UTC"),
            ];
            for a in &vals { for b in &vals { for c in &vals {
                let bad = laws(a, b, c);
                if !bad.is_empty() {
                    println!("RESULT enum:eq-laws a={a:?} b={b:?} c={c:?} violated={bad:?}");
                    std::process::exit(3);
                }
            } } }
            println!("RESULT enum:eq-laws {} values, all pairs and triples satisfy the equality / hash / order laws", vals.len());
        }
        // ---- C12: the same laws over seeded random values (all kinds, nested), all pairs and triples of a batch, many batches
        "enum:random-eq-laws" => {
            use randgen::*;
            let seed: u64 = std::env::var("VERIF_SEED").ok().and_then(|s| s.parse().ok()).unwrap_or(0);
            let batches: usize = args.get(2).and_then(|s| s.parse().ok()).unwrap_or(40);
            let mut rng = Rng::seeded(seed ^ 0x3C3C);
            let mut n = 0u64;
            for _ in 0..batches {
                // a batch: random values, and for some of them an equal copy and a near copy (so that equal pairs occur)
                // (the property speaks of values without NaN)
                let mut vals: Vec<Value> = (0..10).map(|_| value(&mut rng, 0, &IDS, &STRS, &UNITS, &ZONES)).filter(|v| !format!("{v:?}").contains("NaN")).collect();
                if vals.len() < 3 { continue; }
                let k = vals.len(); for i in 0..k { if rng.below(2) == 0 { let c = vals[i].clone(); vals.push(c); } }
                vals.push(Value::make_list(vals[..3].to_vec())); vals.push(Value::make_list(vals[..3].to_vec()));
                // records: random dicts that carry an id Ref from a small pool (with or without display name), and one without id
                for _ in 0..3 {
                    let mut d = dict(&mut rng, 1, &IDS, &STRS, &UNITS, &ZONES);
                    let id = format!("r{}", rng.below(3));
                    d.insert("id".into(), if rng.below(2) == 0 { Value::make_ref(&id) } else { Value::make_ref_with_dis(&id, STRS[rng.below(STRS.len())]) });
                    if !format!("{d:?}").contains("NaN") { vals.push(Value::make_dict(d)); }
                }
                for a in &vals { for b in &vals { for c in &vals {
                    n += 1;
                    let bad = laws(a, b, c);
                    if !bad.is_empty() { println!("RESULT enum:random-eq-laws seed={seed} a={a:?} b={b:?} c={c:?} violated={bad:?}"); std::process::exit(3); }
                } } }
            }
            println!("RESULT enum:random-eq-laws seed={seed}: {n} random triples satisfy the equality / hash / order laws");
        }
        // ---- C19 enumerator: kinds are exclusive on sample values; a grid built from records keeps them as rows and has one sorted column per distinct tag
        "enum:kinds-grid" => {
            use libhaystack::val::{Dict, Grid};
            let mut samples = composite_samples();
            samples.extend([Value::Null, Value::Marker, Value::Na, Value::Remove, Value::make_true(), Value::make_number(1.0), Value::make_str("s"),
                Value::make_uri("u"), Value::make_symbol("s"), Value::make_ref("r"), Value::make_xstr_from("T", "v"), Value::make_coord_from(1.0, 2.0),
                Value::make_date(libhaystack::val::Date::from_ymd(2021, 6, 19).unwrap()), Value::make_time(libhaystack::val::Time::from_hms(1, 2, 3).unwrap())]);
            for v in &samples {
                let preds = [v.is_null(), v.is_marker(), v.is_na(), v.is_remove(), v.is_bool(), v.is_number(), v.is_str(), v.is_uri(), v.is_symbol(), v.is_ref(),
                    v.is_xstr(), v.is_coord(), v.is_date(), v.is_time(), v.is_datetime(), v.is_list(), v.is_dict(), v.is_grid()];
                if preds.iter().filter(|p| **p).count() != 1 {
                    println!("RESULT enum:kinds-grid value={v:?} satisfies {} kind predicates", preds.iter().filter(|p| **p).count());
                    std::process::exit(3);
                }
            }
            let mk = |pairs: &[(&str, Value)]| { let mut d = Dict::new(); for (k, v) in pairs { d.insert((*k).into(), v.clone()); } d };
            let recsets: Vec<Vec<Dict>> = vec![
                vec![mk(&[("id", Value::make_ref("a")), ("dis", Value::make_str("A")), ("geoCity", Value::Null)]), mk(&[("id", Value::make_ref("b")), ("area", Value::make_int(10))])],
                vec![mk(&[("z", Value::Marker)]), mk(&[]), mk(&[("a", Value::Na), ("z", Value::Remove)])],
                vec![mk(&[])],
            ];
            for recs in recsets {
                let g = Grid::make_from_dicts(recs.clone());
                let mut want: Vec<String> = recs.iter().flat_map(|r| r.keys().cloned()).collect();
                want.sort(); want.dedup();
                let got: Vec<String> = g.columns.iter().map(|c| c.name.clone()).collect();
                if g.rows != recs || got != want {
                    println!("RESULT enum:kinds-grid records={recs:?} columns={got:?} expected columns={want:?} rows kept={}", g.rows == recs);
                    std::process::exit(3);
                }
                // the constructor with meta: the same grid, carrying exactly the given meta
                let meta = mk(&[("dis", Value::make_str("A grid")), ("ver", Value::make_str("x"))]);
                let gm = Grid::make_from_dicts_with_meta(recs.clone(), meta.clone());
                if gm.meta != Some(meta.clone()) || gm.rows != g.rows || gm.columns != g.columns || gm.ver != g.ver {
                    println!("RESULT enum:kinds-grid records={recs:?} make_from_dicts_with_meta: meta={:?} (given {meta:?}), same rows={} same columns={}", gm.meta, gm.rows == g.rows, gm.columns == g.columns);
                    std::process::exit(3);
                }
            }
            println!("RESULT enum:kinds-grid {} values have exactly one kind; grids built from records keep the rows and have one sorted column per tag", samples.len());
        }
        // ---- C11 enumerator: decoding the Zinc text of each composite sample from a reader that delivers 1, 2, 3 or 7 bytes per read call
        //      gives the same value as decoding the buffer; exit 3 on a difference
        "enum:stream-chunks" => {
            use libhaystack::encoding::zinc::encode::ToZinc;
            struct Chunked<'a> { data: &'a [u8], pos: usize, n: usize, calls: usize, interrupt_every: usize }
            impl<'a> std::io::Read for Chunked<'a> {
                fn read(&mut self, buf: &mut [u8]) -> std::io::Result<usize> {
                    self.calls += 1;
                    // a reader may be interrupted by a signal at any call; std's read_exact retries
                    if self.interrupt_every != 0 && self.calls % self.interrupt_every == 0 {
                        return Err(std::io::Error::new(std::io::ErrorKind::Interrupted, "interrupted"));
                    }
                    let k = self.n.min(buf.len()).min(self.data.len() - self.pos);
                    buf[..k].copy_from_slice(&self.data[self.pos..self.pos + k]);
                    self.pos += k;
                    Ok(k)
                }
            }
            let all = composite_samples();
            let mut cases = 0;
            for v in &all[..all.len() - 1] {
                let text = v.to_zinc_string().expect("zinc");
                let want = from_str(&text);
                for (n, interrupt_every) in [(1usize, 0usize), (2, 0), (3, 0), (7, 0), (1, 3), (5, 2)] {
                    let mut rd = Chunked { data: text.as_bytes(), pos: 0, n, calls: 0, interrupt_every };
                    let got = libhaystack::encoding::zinc::decode::parser::Parser::make(&mut rd).and_then(|mut p| p.parse_value());
                    cases += 1;
                    let same = match (&got, &want) { (Ok(a), Ok(b)) => a == b && format!("{a:?}") == format!("{b:?}"), (Err(_), Err(_)) => true, _ => false };
                    if !same {
                        println!("RESULT enum:stream-chunks text={text:?} chunk={n} interrupted every {interrupt_every} calls from_reader={got:?} from_str={want:?}");
                        std::process::exit(3);
                    }
                }
            }
            println!("RESULT enum:stream-chunks {cases} chunked decodes agree with buffer decoding");
        }
        // ---- C11 enumerator (first sentence): for accepted texts in many legal spellings, and the corpus files shipped with the
        //      repository, decode -> encode -> decode gives the first decode and the second encoding equals the first; exit 3 otherwise
        "enum:reencode-stable" => {
            use libhaystack::encoding::zinc::encode::ToZinc;
            let repo = std::env::var("VX_REPO").unwrap_or_else(|_| "/repo".to_string());
            let mut zinc_texts: Vec<String> = [
                "1.0", "1e3", "1E3", "1e+3", "10_000", "-0", "-0.0", "0.10", "1.50kg", "5.4e-45", "9223372036854775808", "-9223372036854775809",
                "1e300", "123456789012345678901234567890", "1.7976931348623157e308", "4.9e-324", "100%", "-3.5$", "1e3kW", "INF", "-INF", "NaN",
                "\"a\\u0041\\u00e9\\$b\"", "\"\\b\\f\\n\\r\\t\\\\\\\"\"", "\"\\u20AC\\u20ac\"", "\"caf\u{e9} \u{1F600}\"",
                "[1, 2,]", "[ 1 ,2 ]", "[]", "[ ]", "[[1],[\"a\",[M]]]", "[1,\n2]",
                "{a b:1 c}", "{a, b:1, c}", "{a:M}", "{}", "{ }", "{a:{b:{c:1}}}", "{a:[1,{b}]}",
                "2021-06-01T12:00:00Z", "2021-06-01T12:00:00Z UTC", "2021-06-01T12:00:00+00:00 UTC", "2021-06-01T12:00:00-04:00 New_York",
                "2021-06-01T12:00:00.5-04:00 New_York", "2021-06-01T12:00:00.123456789+05:30 Kolkata", "2021-06-01T12:00:00+05:00 GMT-5",
                "2021-06-01T12:00:00-02:30 St_Johns", "2021-06-01T12:00:00.000Z", "2021-06-01", "0001-01-01", "12:00:00", "12:00:00.000", "23:59:59.999999999", "12:00",
                "@a", "@a \"dis\"", "@a.b:c-d~e \"d \\\"q\\\"\"", "^sym", "^a.b-c:d", "`http://x/y?z=1#f`", "`a\\`b`", "`a\\\\b`", "`a b`",
                "C(1.50,-2.0)", "C(0,0)", "C(-90.0,180.0)", "C(1e1,2)", "Foo(\"bar\")", "Bin(\"text/plain\")", "Span(\"today\")", "T", "F", "M", "N", "NA", "R",
                "ver:\"3.0\"\nempty\n", "ver:\"3.0\"\nempty\n\n", "ver:\"3.0\"\na\n1\n", "ver:\"3.0\"\r\na\r\n1\r\n", "ver:\"3.0\" x y:1\na z,b q:\"s\"\n1,2\n,\n3,\n,4\n",
                "ver:\"2.0\"\na\n1\n", "ver:\"3.0\"\na,b\nN,N\n", "ver:\"3.0\"\na\n<<\nver:\"3.0\"\nb\n2\n>>\n", "ver:\"3.0\"\na\n[1,<<\nver:\"3.0\"\nb\n2\n>>]\n",
                "ver:\"3.0\"\na\n{x:<<\nver:\"3.0\"\nb\n2\n>>}\n", "ver:\"3.0\" m:{a:[1]}\na\n\"x\"\n", "<<\nver:\"3.0\"\na\n1\n>>",
            ].iter().map(|s| s.to_string()).collect();
            let mut corpus = 0;
            for f in ["benches/zinc/points.zinc", "tests/defs/defs.zinc"] {
                if let Ok(t) = std::fs::read_to_string(format!("{repo}/{f}")) { zinc_texts.push(t); corpus += 1; }
            }
            let short = |s: &str| -> String { if s.len() > 300 { format!("{}... ({} bytes)", s.chars().take(300).collect::<String>(), s.len()) } else { s.to_string() } };
            let (mut accepted, mut skipped) = (0, 0);
            let mut skipped_texts: Vec<String> = vec![];
            for t in &zinc_texts {
                let v1 = match from_str(t) { Ok(v) => v, Err(_) => { skipped += 1; skipped_texts.push(short(t)); continue; } };
                accepted += 1;
                let e1 = match v1.to_zinc_string() { Ok(e) => e, Err(e) => {
                    println!("RESULT enum:reencode-stable zinc text={:?} decodes but its value cannot be encoded: {e}", short(t)); std::process::exit(3); } };
                let v2 = from_str(&e1);
                let same = matches!(&v2, Ok(v2) if { let (a, b) = (format!("{:?}", norm(v2)), format!("{:?}", norm(&v1))); a == b && (norm(v2) == norm(&v1) || a.contains("NaN")) });
                let e2 = v2.as_ref().ok().and_then(|v| v.to_zinc_string().ok());
                if !same || e2.as_deref() != Some(e1.as_str()) {
                    println!("RESULT enum:reencode-stable zinc text={:?} first decode={} re-encoded={:?} second decode={} second encoding={:?}",
                        short(t), short(&format!("{v1:?}")), short(&e1), short(&format!("{v2:?}")), e2.as_deref().map(short));
                    std::process::exit(3);
                }
            }
            let mut docs: Vec<String> = [
                r#"1"#, r#"1.0"#, r#"1e3"#, r#"-0.0"#, r#"0.1"#, r#"9223372036854775807"#, r#"9223372036854775808"#, r#"18446744073709551615"#, r#"-9223372036854775808"#,
                r#"1e300"#, r#"1.7976931348623157e308"#, r#"5e-324"#, r#"123456789012345678901234567890"#, r#"9007199254740993"#,
                r#"{"_kind":"number","val":1}"#, r#"{"_kind":"number","val":1.0,"unit":"kg"}"#, r#"{"val":"INF","_kind":"number"}"#, r#"{"_kind":"number","val":"-INF"}"#,
                r#"{"_kind":"number","val":"NaN"}"#, r#"{"_kind":"number","val":1e19,"unit":"kW"}"#, r#"{"unit":"%","val":50,"_kind":"number"}"#,
                r#""s""#, r#""caf\u00e9 \ud83d\ude00""#, r#"true"#, r#"null"#, r#"[]"#, r#"[1,[2,[3]],null]"#, r#"{}"#, r#"{"a":1,"b":{"c":[true]}}"#, r#"{"_kind":"dict","a":1}"#,
                r#"{"_kind":"marker"}"#, r#"{"_kind":"remove"}"#, r#"{"_kind":"na"}"#, r#"{"_kind":"ref","val":"a"}"#, r#"{"_kind":"ref","val":"a","dis":"A"}"#,
                r#"{"_kind":"symbol","val":"s"}"#, r#"{"_kind":"uri","val":"http://x"}"#, r#"{"_kind":"xstr","type":"Foo","val":"bar"}"#, r#"{"_kind":"coord","lat":1.5,"lng":-2}"#,
                r#"{"_kind":"date","val":"2021-06-01"}"#, r#"{"_kind":"time","val":"12:00:00"}"#, r#"{"_kind":"time","val":"12:00:00.5"}"#,
                r#"{"_kind":"dateTime","val":"2021-06-01T12:00:00Z"}"#, r#"{"_kind":"dateTime","val":"2021-06-01T12:00:00Z","tz":"UTC"}"#,
                r#"{"_kind":"dateTime","val":"2021-06-01T12:00:00+00:00","tz":"UTC"}"#, r#"{"_kind":"dateTime","val":"2021-06-01T12:00:00-04:00","tz":"New_York"}"#,
                r#"{"tz":"Kolkata","val":"2021-06-01T12:00:00.25+05:30","_kind":"dateTime"}"#, r#"{"_kind":"dateTime","val":"2021-06-01T12:00:00-02:30","tz":"St_Johns"}"#,
                r#"{"_kind":"dateTime","val":"2021-06-01T12:00:00+05:00"}"#,
                r#"{"_kind":"grid","meta":{"ver":"3.0"},"cols":[{"name":"empty"}],"rows":[]}"#,
                r#"{"_kind":"grid","meta":{"ver":"3.0","x":{"_kind":"marker"}},"cols":[{"name":"a","meta":{"z":1}},{"name":"b"}],"rows":[{"a":1},{"b":"s"},{}]}"#,
                r#"{"_kind":"grid","meta":{"ver":"2.0"},"cols":[{"name":"a"}],"rows":[{"a":{"_kind":"grid","meta":{"ver":"3.0"},"cols":[{"name":"b"}],"rows":[{"b":2}]}}]}"#,
                r#"{"rows":[{"a":null}],"cols":[{"name":"a"}],"meta":{"ver":"3.0"},"_kind":"grid"}"#,
            ].iter().map(|s| s.to_string()).collect();
            if let Ok(t) = std::fs::read_to_string(format!("{repo}/benches/json/points.json")) { docs.push(t); corpus += 1; }
            for t in &docs {
                let v1 = match serde_json::from_str::<Value>(t) { Ok(v) => v, Err(_) => { skipped += 1; skipped_texts.push(short(t)); continue; } };
                accepted += 1;
                let e1 = match serde_json::to_string(&v1) { Ok(e) => e, Err(e) => {
                    println!("RESULT enum:reencode-stable hayson document={:?} decodes but its value cannot be encoded: {e}", short(t)); std::process::exit(3); } };
                let v2 = serde_json::from_str::<Value>(&e1);
                let same = matches!(&v2, Ok(v2) if { let (a, b) = (format!("{:?}", norm(v2)), format!("{:?}", norm(&v1))); a == b && (norm(v2) == norm(&v1) || a.contains("NaN")) });
                let e2 = v2.as_ref().ok().and_then(|v| serde_json::to_string(v).ok());
                if !same || e2.as_deref() != Some(e1.as_str()) {
                    println!("RESULT enum:reencode-stable hayson document={:?} first decode={} re-encoded={:?} second decode={} second encoding={:?}",
                        short(t), short(&format!("{v1:?}")), short(&e1), short(&format!("{v2:?}")), e2.as_deref().map(short));
                    std::process::exit(3);
                }
            }
            println!("RESULT enum:reencode-stable {accepted} accepted texts ({corpus} corpus files) reach a fixed point after one re-encoding; {skipped} spellings not accepted and skipped: {skipped_texts:?}");
        }
        // ---- C11 enumerator (third sentence): a byte-counting reader under the lazy row iterator; when row i is handed out the stream
        //      has been consumed no further than the end of the first token after that row (plus the two bytes of look-ahead a token end needs)
        "enum:lazy-rows" => {
            use libhaystack::encoding::zinc::decode::parse_grid_iterator;
            use libhaystack::encoding::zinc::decode::parser::Parser;
            use std::cell::Cell;
            use std::rc::Rc;
            struct Counting<'a> { data: &'a [u8], pos: usize, used: Rc<Cell<usize>> }
            impl std::io::Read for Counting<'_> {
                fn read(&mut self, buf: &mut [u8]) -> std::io::Result<usize> {
                    let n = buf.len().min(self.data.len() - self.pos);
                    buf[..n].copy_from_slice(&self.data[self.pos..self.pos + n]);
                    self.pos += n; self.used.set(self.pos); Ok(n)
                }
            }
            // first cell of a row = the first token after the previous row; the other cells make any further read-ahead visible
            let firsts: [(&str, usize); 8] = [("@r", 2), ("12", 2), ("\"s\"", 3), ("M", 1), ("`u`", 3), ("", 1), ("[1,2]", 1), ("2021-06-01", 10)];
            const SLACK: usize = 2;
            let mut cases = 0;
            for rows in [1usize, 2, 5] { for (first, tok_len) in firsts {
                let mut text = String::from("ver:\"3.0\"\nid,dis,val\n");
                let mut starts = vec![];
                for i in 0..rows { starts.push(text.len()); text.push_str(&format!("{first},\"Row number {i} with a long description\",[1,2,{i}]\n")); }
                let want = match from_str(&text) { Ok(Value::Grid(g)) => g.rows.clone(), other => { println!("RESULT enum:lazy-rows text={text:?} buffer decode={other:?}"); std::process::exit(3); } };
                let used = Rc::new(Cell::new(0usize));
                let mut rd = Counting { data: text.as_bytes(), pos: 0, used: used.clone() };
                let mut parser = Parser::make(&mut rd).expect("parser");
                let it = parse_grid_iterator(&mut parser).expect("grid header");
                let mut n = 0;
                for (i, row) in it.enumerate() {
                    let bound = if i + 1 < rows { starts[i + 1] + tok_len + SLACK } else { text.len() };
                    let got = used.get();
                    cases += 1;
                    match row { Ok(r) if r == want[i] => {}, other => { println!("RESULT enum:lazy-rows text={text:?} row {i}: lazy={other:?} buffer={:?}", want[i]); std::process::exit(3); } }
                    if got > bound {
                        println!("RESULT enum:lazy-rows text={text:?} row {i} handed out after {got} bytes; the first token after it ends at byte {} (read ahead: {:?})",
                            bound - SLACK, &text[bound - SLACK..got]);
                        std::process::exit(3);
                    }
                    n += 1;
                }
                if n != rows { println!("RESULT enum:lazy-rows text={text:?} lazy iterator gave {n} rows, buffer decode {rows}"); std::process::exit(3); }
            } }
            println!("RESULT enum:lazy-rows {cases} rows handed out having consumed no further than the first token after the row");
        }
        // ---- C04 enumerator (reader side): alternative legal spellings of one value -- number forms, escapes, separators, line
        //      endings -- must all be accepted and denote the value of the plain spelling; exit 3 otherwise
        "enum:zinc-spellings" => {
            let pairs: [(&str, &str); 46] = [
                ("1.0", "1"), ("1e3", "1000"), ("1E3", "1000"), ("1e+3", "1000"), ("10_000", "10000"), ("1_000.5", "1000.5"), ("5E-1", "0.5"), ("0.10", "0.1"),
                ("1.50kg", "1.5kg"), ("-0.0", "-0"), ("1e3kW", "1000kW"), ("100%", "1e2%"),
                ("\"\\u0041\"", "\"A\""), ("\"\\u00e9\"", "\"\u{e9}\""), ("\"\\u00E9\"", "\"\u{e9}\""), ("\"\\u20ac\"", "\"\u{20ac}\""), ("\"a\\tb\"", "\"a\\u0009b\""), ("\"\\b\\f\"", "\"\\u0008\\u000c\""),
                ("[1, 2,]", "[1,2]"), ("[ 1 ,2 ]", "[1,2]"), ("[ ]", "[]"), ("[1,[2, 3],]", "[1,[2,3]]"),
                ("{a b:1 c}", "{a,b:1,c}"), ("{a, b:1, c}", "{a,b:1,c}"), ("{a:M}", "{a}"), ("{ }", "{}"), ("{a:{b c:1}}", "{a:{b,c:1}}"), ("{a  b}", "{a b}"),
                ("2021-06-01T12:00:00Z", "2021-06-01T12:00:00Z UTC"), ("2021-06-01T12:00:00+00:00 UTC", "2021-06-01T12:00:00Z UTC"), ("2021-06-01T12:00:00.000Z", "2021-06-01T12:00:00Z UTC"),
                ("2021-06-01T12:00:00.50-04:00 New_York", "2021-06-01T12:00:00.5-04:00 New_York"), ("12:00:00.000", "12:00:00"), ("12:00:00.50", "12:00:00.5"),
                ("C(1.50,-2.0)", "C(1.5,-2)"), ("C(01,2)", "C(1,2)"),
                ("ver:\"3.0\"\r\na\r\n1\r\n", "ver:\"3.0\"\na\n1\n"), ("ver:\"3.0\"\na\n1\r\n", "ver:\"3.0\"\na\n1\n"), ("ver:\"3.0\"\r\nempty\r\n", "ver:\"3.0\"\nempty\n"),
                ("ver:\"3.0\"\na\n1\n\n", "ver:\"3.0\"\na\n1\n"), ("ver:\"3.0\" x  y:1\na  z,b\n1,2\n", "ver:\"3.0\" x y:1\na z,b\n1,2\n"),
                ("ver:\"3.0\"\na\n<<\r\nver:\"3.0\"\r\nb\r\n2\r\n>>\n", "ver:\"3.0\"\na\n<<\nver:\"3.0\"\nb\n2\n>>\n"), ("[<<\nver:\"3.0\"\nb\n2\n\n>>]", "[<<\nver:\"3.0\"\nb\n2\n>>]"),
                // a grid without rows whose text ends right after the column line, with and without meta on the last column
                ("ver:\"3.0\"\nid,val unit:\"kW\"\n", "ver:\"3.0\"\nid,val unit:\"kW\"\n\n"), ("ver:\"3.0\"\nid,val point\r\n", "ver:\"3.0\"\nid,val point\n\n"), ("ver:\"3.0\"\nid,val\n", "ver:\"3.0\"\nid,val\n\n"),
            ];
            for (alt, plain) in pairs {
                let a = from_str(alt); let b = from_str(plain);
                let same = matches!((&a, &b), (Ok(x), Ok(y)) if format!("{:?}", norm(x)) == format!("{:?}", norm(y)));
                if !same {
                    println!("RESULT enum:zinc-spellings spelling={alt:?} decodes to {a:?}; the plain spelling {plain:?} decodes to {b:?}");
                    std::process::exit(3);
                }
            }
            println!("RESULT enum:zinc-spellings {} alternative spellings decode to the value of the plain spelling", pairs.len());
        }
        // ---- C20 enumerator: display names over all 256 subsets of the eight display tags, with Str and non-Str values, against an oracle
        //      written from the precedence order; macro substitution cases; text without `$` unchanged; odd patterns never panic
        "enum:dis" => {
            use libhaystack::val::{dict_to_dis, dis_macro, Dict};
            use std::borrow::Cow;
            let order = ["dis", "disMacro", "disKey", "name", "def", "tag", "navName", "id"];
            fn loc<'a>(k: &str) -> Option<Cow<'a, str>> { if k == "key" || k == "pod::key" { Some(Cow::Borrowed("LOC")) } else { None } }
            // oracle for one macro pattern: $ident, ${ident}, $<key>; ident = a tag name
            fn is_start(c: char) -> bool { c.is_ascii_lowercase() }
            fn is_part(c: char) -> bool { c.is_ascii_alphanumeric() || c == '_' }
            fn tag_text(d: &Dict, name: &str) -> Option<String> { d.get(name).map(|v| match v {
                Value::Str(s) => s.value.clone(), Value::Ref(r) => r.dis.clone().unwrap_or(r.value.clone()), other => other.to_string() }) }
            fn expand(p: &str, d: &Dict) -> String {
                let cs: Vec<char> = p.chars().collect();
                let mut out = String::new();
                let mut i = 0;
                while i < cs.len() {
                    if cs[i] == '$' && i + 1 < cs.len() {
                        if is_start(cs[i + 1]) {
                            let mut j = i + 1; while j < cs.len() && is_part(cs[j]) { j += 1; }
                            let name: String = cs[i + 1..j].iter().collect();
                            match tag_text(d, &name) { Some(t) => out.push_str(&t), None => out.extend(cs[i..j].iter()) }
                            i = j; continue;
                        }
                        if cs[i + 1] == '{' && i + 2 < cs.len() && is_start(cs[i + 2]) {
                            let mut j = i + 2; while j < cs.len() && is_part(cs[j]) { j += 1; }
                            if j < cs.len() && cs[j] == '}' {
                                let name: String = cs[i + 2..j].iter().collect();
                                match tag_text(d, &name) { Some(t) => out.push_str(&t), None => out.extend(cs[i..=j].iter()) }
                                i = j + 1; continue;
                            }
                        }
                        if cs[i + 1] == '<' {
                            if let Some(off) = cs[i + 2..].iter().position(|c| *c == '>') {
                                if off > 0 {
                                    let key: String = cs[i + 2..i + 2 + off].iter().collect();
                                    match loc(&key) { Some(t) => out.push_str(&t), None => out.extend(cs[i..=i + 2 + off].iter()) }
                                    i = i + 3 + off; continue;
                                }
                            }
                        }
                    }
                    out.push(cs[i]); i += 1;
                }
                out
            }
            let mut n = 0;
            for variant in 0..3 { for mask in 0u32..256 {
                let mut d = Dict::new();
                d.insert("site".into(), Value::make_str("Site")); d.insert("n".into(), Value::make_int(7)); d.insert("r".into(), Value::make_ref_with_dis("x", "X name"));
                for (bit, t) in order.iter().enumerate() {
                    if mask & (1 << bit) != 0 {
                        let v = match (variant, *t) {
                            (_, "disMacro") if variant < 2 => Value::make_str("m $site ${n} $r $<key> $<nokey> $missing ${missing} $x"),
                            (_, "disKey") if variant == 0 => Value::make_str("key"),
                            (_, "disKey") if variant == 1 => Value::make_str("nokey"),
                            (1, "id") => Value::make_ref_with_dis("i", "Id name"),
                            (2, "id") => Value::make_ref("i"),
                            (2, _) => Value::make_int(bit as i64),
                            _ => Value::make_str(&format!("v_{t}")),
                        };
                        d.insert((*t).into(), v);
                    }
                }
                let first = order.iter().find(|t| d.get(**t).is_some());
                let plain = |v: &Value| match v { Value::Str(s) => s.value.clone(), other => other.to_string() };
                let want = match first {
                    None => "DEFAULT".to_string(),
                    Some(t) => { let v = d.get(*t).unwrap(); match (*t, v) {
                        ("disMacro", Value::Str(s)) => expand(&s.value, &d),
                        ("disKey", Value::Str(s)) => loc(&s.value).map(|c| c.to_string()).unwrap_or(s.value.clone()),
                        ("id", Value::Ref(r)) => r.dis.clone().unwrap_or(r.value.clone()),
                        _ => plain(v) } } };
                let got = dict_to_dis(&d, &loc, Some(Cow::Borrowed("DEFAULT"))).to_string();
                n += 1;
                if got != want {
                    println!("RESULT enum:dis record={d:?}: display name {got:?}, the precedence order gives {want:?}");
                    std::process::exit(3);
                }
            } }
            let mut d = Dict::new();
            d.insert("a".into(), Value::make_str("A")); d.insert("ab".into(), Value::make_str("AB")); d.insert("navName".into(), Value::make_str("Nav"));
            d.insert("equipRef".into(), Value::make_ref_with_dis("e", "Equip 1")); d.insert("num".into(), Value::make_number_unit(5.0, libhaystack::units::get_unit_or_default("kg")));
            for p in ["", "plain text", "no dollars: 100% (a) {b} <c>", "$a", "$ab", "${a}", "${ab}", "x$a.y", "$a$ab", "$equipRef $navName", "${equipRef}-${num}", "$<key>", "$<pod::key>", "$<nokey>",
                      "$", "$$", "${", "${}", "$<", "$<>", "$1", "\u{e9}$\u{e9}", "${a", "$<a", "$A", "${A}", "$a_b", "$missing", "cost: 5$", "$ $a", "$\u{1F600}", "a$<key>b$<key>", "$ab\u{e9}", "$a\u{968e}", "${ab}\u{e9}", "$ab_\u{3a9}x"] {
                let got = dis_macro(p, |k| d.get(k).map(Cow::Borrowed), loc).to_string();
                let want = expand(p, &d);
                n += 1;
                if got != want || (!p.contains('$') && got != p) {
                    println!("RESULT enum:dis pattern={p:?} over {d:?}: substitution gives {got:?}, the macro rules give {want:?}");
                    std::process::exit(3);
                }
            }
            // seeded random records and patterns
            {
                use randgen::{Rng, scalar, STRS, UNITS, ZONES};
                let seed: u64 = std::env::var("VERIF_SEED").ok().and_then(|s| s.parse().ok()).unwrap_or(0);
                let count: usize = args.get(2).and_then(|s| s.parse().ok()).unwrap_or(400);
                let mut rng = Rng::seeded(seed ^ 0xD15);
                let pieces = ["$", "${", "}", "$<key>", "$<no>", "x", " ", "\u{e9}", "$a", "$ab", "${ab}", "$navName", "$$", "<", ">", "$id", "${n}", "$n", "a", ":"];
                let names = ["dis", "disMacro", "disKey", "name", "def", "tag", "navName", "id", "a", "ab", "n"];
                for i in 0..count {
                    let mut r = Dict::new();
                    for t in names { if rng.below(3) == 0 { let v = if rng.below(2) == 0 { Value::make_str(*rng.pick(&["s", "key", "x y", ""])) } else { scalar(&mut rng, &STRS, &UNITS, &ZONES) }; if !v.is_null() { r.insert(t.into(), v); } } }
                    let pat: String = (0..1 + rng.below(6)).map(|_| *rng.pick(&pieces)).collect();
                    if rng.below(2) == 0 { r.insert("disMacro".into(), Value::make_str(&pat)); }
                    let got = dis_macro(&pat, |k| r.get(k).map(Cow::Borrowed), loc).to_string();
                    let want = expand(&pat, &r);
                    if got != want { println!("RESULT enum:dis seed={seed} #{i} pattern={pat:?} over {r:?}: substitution gives {got:?}, the macro rules give {want:?}"); std::process::exit(3); }
                    let first = order.iter().find(|t| r.get(**t).is_some());
                    let plain = |v: &Value| match v { Value::Str(s) => s.value.clone(), other => other.to_string() };
                    let want = match first { None => "DEFAULT".to_string(), Some(t) => { let v = r.get(*t).unwrap(); match (*t, v) {
                        ("disMacro", Value::Str(s)) => expand(&s.value, &r), ("disKey", Value::Str(s)) => loc(&s.value).map(|c| c.to_string()).unwrap_or(s.value.clone()),
                        ("id", Value::Ref(x)) => x.dis.clone().unwrap_or(x.value.clone()), _ => plain(v) } } };
                    let got = dict_to_dis(&r, &loc, Some(Cow::Borrowed("DEFAULT"))).to_string();
                    n += 2;
                    if got != want { println!("RESULT enum:dis seed={seed} #{i} record={r:?}: display name {got:?}, the precedence order gives {want:?}"); std::process::exit(3); }
                }
            }
            println!("RESULT enum:dis {n} display names and macro substitutions agree with the precedence order and the macro rules");
        }
        // ---- C04 / C01 enumerator: the Zinc text the writer emits is read by an independent reader written from the grammar, and denotes the value
        "enum:zinc-reference" => {
            use libhaystack::encoding::zinc::encode::ToZinc;
            let mut vals = composite_samples(); vals.pop();
            for a in ["", "a", "\u{e9}", "a\"b", "\\", "$", "\t\r\n", "\u{1}", "\u{1F600}", " x ", "a`b"] {
                vals.push(Value::make_str(a)); vals.push(Value::make_ref_with_dis("r", a)); vals.push(Value::make_xstr_from("Bin", a)); }
            for a in ["a", "a.b:c-d~e_f", "x1"] { vals.push(Value::make_ref(a)); vals.push(Value::make_symbol(a)); }
            for a in ["/a/b", "http://x/\u{e9}?q=1#f", "a`b", "a\u{1F600}", "a\\b", "a\\:b\\`c", "[x]@y&z=1;2"] { vals.push(Value::make_uri(a)); }
            let kg = libhaystack::units::get_unit_or_default("kg");
            for x in [0.0f64, -0.0, 1.0, -1.5, 1e-7, 5e-324, 1e21, 123456789012345680000.0, 1.7976931348623157e308, f64::NAN, f64::INFINITY, f64::NEG_INFINITY] {
                vals.push(Value::make_number(x)); if x.is_finite() { vals.push(Value::make_number_unit(x, kg)); }
                if x.is_finite() && x.abs() <= 90.0 { vals.push(Value::make_coord_from(x, -x)); } }
            for v in [Value::Marker, Value::Remove, Value::Na, Value::Null, Value::make_true(), Value::make_false()] { vals.push(v); }
            let mut n = 0;
            for v in &vals {
                let text = match v.to_zinc_string() { Ok(t) => t, Err(e) => { println!("RESULT enum:zinc-reference value={v:?} cannot be encoded: {e}"); std::process::exit(3); } };
                let back = refzinc::parse(&text);
                n += 1;
                let same = matches!(&back, Ok(b) if format!("{:?}", norm(b)) == format!("{:?}", norm(v)));
                if !same {
                    println!("RESULT enum:zinc-reference value={v:?} is written as {text:?}, which the reference reader (written from the grammar) reads as {back:?}");
                    std::process::exit(3);
                }
            }
            println!("RESULT enum:zinc-reference {n} values: the text written is a sentence of the grammar that denotes the value");
        }
        // ---- C05 enumerator: the JSON the Hayson writer emits is read by an independent reader written from the Hayson specification
        "enum:hayson-reference" => {
            let mut vals = composite_samples(); vals.pop();
            let kg = libhaystack::units::get_unit_or_default("kg");
            for x in [0.0f64, -0.0, 1.0, -1.5, 1e-7, 5e-324, 1e21, 9007199254740993.0, 1.7976931348623157e308, f64::NAN, f64::INFINITY, f64::NEG_INFINITY] {
                vals.push(Value::make_number(x)); if x.is_finite() { vals.push(Value::make_number_unit(x, kg)); vals.push(Value::make_coord_from(x.clamp(-90.0, 90.0), -x.clamp(-90.0, 90.0))); } }
            for a in ["", "a", "\u{e9}\u{1F600}", "a\"b\\"] { vals.push(Value::make_str(a)); vals.push(Value::make_ref_with_dis("r", a)); vals.push(Value::make_xstr_from("Bin", a)); vals.push(Value::make_uri(a)); }
            for v in [Value::Marker, Value::Remove, Value::Na, Value::Null, Value::make_true(), Value::make_ref("a"), Value::make_symbol("s")] { vals.push(v); }
            let mut n = 0;
            for v in &vals {
                let text = match serde_json::to_string(v) { Ok(t) => t, Err(e) => { println!("RESULT enum:hayson-reference value={v:?} cannot be encoded: {e}"); std::process::exit(3); } };
                let back = serde_json::from_str::<serde_json::Value>(&text).map_err(|e| e.to_string()).and_then(|j| refhayson::decode(&j));
                n += 1;
                let same = matches!(&back, Ok(b) if format!("{:?}", norm(b)) == format!("{:?}", norm(v)));
                if !same {
                    println!("RESULT enum:hayson-reference value={v:?} is written as {text}, which the reference reader (written from the Hayson specification) reads as {back:?}");
                    std::process::exit(3);
                }
            }
            println!("RESULT enum:hayson-reference {n} values: the JSON written is the Hayson representation of the value");
        }
        // ---- C07 / C08 thorough enumerator: every filter made of up to three atoms joined by and / or, with and without parentheses, over a small
        //      universe of records, against an oracle that evaluates the expression tree it was printed from (so precedence is tested too)
        "enum:filter-eval-exhaustive" => {
            use libhaystack::filter::*;
            use libhaystack::val::Dict;
            #[derive(Clone)]
            enum E { Atom(usize), And(Box<E>, Box<E>), Or(Box<E>, Box<E>) }
            let atoms = ["a", "not a", "b", "not b", "a == 1", "a != 1", "a < 2", "a >= 2", "c->d", "not c->d", "c->d == \"x\"", "a == 1kg"];
            let mk = |pairs: &[(&str, Value)]| { let mut d = Dict::new(); for (k, v) in pairs { d.insert((*k).into(), v.clone()); } d };
            let inner = mk(&[("d", Value::make_str("x"))]);
            let recs = vec![mk(&[]), mk(&[("a", Value::make_int(1))]), mk(&[("a", Value::make_int(2)), ("b", Value::Marker)]), mk(&[("a", Value::make_str("1"))]),
                mk(&[("b", Value::Null), ("c", Value::make_dict(inner.clone()))]), mk(&[("a", Value::make_number_unit(1.0, libhaystack::units::get_unit_or_default("kg"))), ("c", Value::make_int(5))]),
                mk(&[("a", Value::make_list(vec![Value::make_int(3), Value::make_int(1)])), ("c", Value::make_dict(mk(&[("d", Value::make_int(1))])))]), mk(&[("a", Value::make_number(f64::NAN)), ("b", Value::make_int(0))])];
            fn get<'a>(r: &'a Dict, path: &[&str]) -> Option<&'a Value> { let mut d = r; let mut cur = None; for (i, s) in path.iter().enumerate() {
                match d.get(*s) { Some(v) if !v.is_null() => cur = Some(v), _ => return None } if i + 1 < path.len() { match cur { Some(Value::Dict(n)) => d = n, _ => return None } } } cur }
            let num = |v: Option<&Value>, unit: Option<&str>, f: &dyn Fn(f64) -> bool| -> bool { let one = |e: &Value| matches!(e, Value::Number(n) if n.unit.map(|u| u.symbol().to_string()) == unit.map(|s| s.to_string()) && f(n.value));
                match v { Some(Value::List(l)) => l.iter().any(|e| one(e)), Some(e) => one(e), None => false } };
            let atom = |i: usize, r: &Dict| -> bool { match i {
                0 => get(r, &["a"]).is_some(), 1 => get(r, &["a"]).is_none(), 2 => get(r, &["b"]).is_some(), 3 => get(r, &["b"]).is_none(),
                4 => num(get(r, &["a"]), None, &|x| x == 1.0),
                5 => match get(r, &["a"]) { None => false, Some(Value::List(l)) => l.iter().any(|e| !matches!(e, Value::Number(n) if n.unit.is_none() && n.value == 1.0)), Some(e) => !matches!(e, Value::Number(n) if n.unit.is_none() && n.value == 1.0) },
                6 => match get(r, &["a"]) { Some(Value::Number(n)) if n.unit.is_some() => return false, _ => num(get(r, &["a"]), None, &|x| x < 2.0) },
                7 => match get(r, &["a"]) { Some(Value::Number(n)) if n.unit.is_some() => return false, _ => num(get(r, &["a"]), None, &|x| x >= 2.0) },
                8 => get(r, &["c", "d"]).is_some(), 9 => get(r, &["c", "d"]).is_none(),
                10 => matches!(get(r, &["c", "d"]), Some(Value::Str(s)) if s.value == "x"),
                _ => num(get(r, &["a"]), Some("kg"), &|x| x == 1.0) } };
            fn eval(e: &E, r: &Dict, atom: &dyn Fn(usize, &Dict) -> bool) -> bool { match e { E::Atom(i) => atom(*i, r), E::And(a, b) => eval(a, r, atom) && eval(b, r, atom), E::Or(a, b) => eval(a, r, atom) || eval(b, r, atom) } }
            // minimal parentheses: an `or` under an `and` needs them; `paren_all` also wraps every composite operand
            fn text(e: &E, atoms: &[&str], under_and: bool, paren_all: bool) -> String { match e {
                E::Atom(i) => atoms[*i].to_string(),
                E::And(a, b) => { let t = format!("{} and {}", text(a, atoms, true, paren_all), text(b, atoms, true, paren_all)); if paren_all && under_and { format!("({t})") } else { t } }
                E::Or(a, b) => { let t = format!("{} or {}", text(a, atoms, false, paren_all), text(b, atoms, false, paren_all)); if under_and || paren_all { format!("({t})") } else { t } } } }
            let n_at = atoms.len();
            let mut exprs: Vec<E> = (0..n_at).map(E::Atom).collect();
            let two: Vec<E> = (0..n_at).flat_map(|i| (0..n_at).flat_map(move |j| vec![E::And(Box::new(E::Atom(i)), Box::new(E::Atom(j))), E::Or(Box::new(E::Atom(i)), Box::new(E::Atom(j)))])).collect();
            exprs.extend(two.iter().cloned());
            for t in two.iter().step_by(7) { for k in (0..n_at).step_by(1) {
                exprs.push(E::And(Box::new(t.clone()), Box::new(E::Atom(k)))); exprs.push(E::Or(Box::new(t.clone()), Box::new(E::Atom(k))));
                exprs.push(E::And(Box::new(E::Atom(k)), Box::new(t.clone()))); exprs.push(E::Or(Box::new(E::Atom(k)), Box::new(t.clone()))); } }
            let mut n = 0u64;
            for e in &exprs { for paren_all in [false, true] {
                let t = text(e, &atoms, false, paren_all);
                let f = match Filter::try_from(t.as_str()) { Ok(f) => f, Err(err) => { println!("RESULT enum:filter-eval-exhaustive filter={t:?} does not parse: {err}"); std::process::exit(3); } };
                // the same tree again through the printer
                let f2 = Filter::try_from(f.to_string().as_str());
                if !matches!(&f2, Ok(g) if *g == f) { println!("RESULT enum:filter-eval-exhaustive filter={t:?} prints as {:?}, which does not parse back to the same tree", f.to_string()); std::process::exit(3); }
                fn uses_order(e: &E) -> bool { match e { E::Atom(i) => *i == 6 || *i == 7, E::And(a, b) | E::Or(a, b) => uses_order(a) || uses_order(b) } }
                for r in &recs {
                    // how Numbers with different units are ordered is left open by the property: no expectation there
                    if uses_order(e) && matches!(r.get("a"), Some(Value::Number(x)) if x.unit.is_some()) { continue; }
                    let want = eval(e, r, &atom); let got = r.filter(&f); n += 1;
                    if got != want { println!("RESULT enum:filter-eval-exhaustive record={r:?} filter={t:?} matched={got} expected={want}"); std::process::exit(3); }
                }
            } }
            println!("RESULT enum:filter-eval-exhaustive {} filters (1-3 atoms, and/or, minimal and full parentheses) x {} records = {n} evaluations agree with the oracle", exprs.len() * 2, recs.len());
        }
        // ---- thorough-tier enumerator for C01 / C02 / C04 / C05 / C11: seeded random well-formed values (all kinds, nested up to depth 3)
        //      through the Zinc writer + libhaystack reader + reference reader, the Hayson writer + reader + reference reader, and one re-encoding
        "enum:random-values" => {
            use libhaystack::encoding::zinc::encode::ToZinc;
            use libhaystack::val::{Column, Date, DateTime, Dict, Grid, Time};
            let seed: u64 = std::env::var("VERIF_SEED").ok().and_then(|s| s.parse().ok()).unwrap_or(0);
            let count: usize = args.get(2).and_then(|s| s.parse().ok()).unwrap_or(1500);
            use randgen::*;
            let mut rng = Rng::seeded(seed);
            let dbg = |v: &Value| format!("{:?}", norm(v));
            for i in 0..count {
                let v = value(&mut rng, 0, &IDS, &STRS, &UNITS, &ZONES);
                let fail = |what: &str, text: &str, got: String| { println!("RESULT enum:random-values seed={seed} value #{i} {v:?}: {what}: text={text:?} got={got}"); std::process::exit(3); };
                let z = match v.to_zinc_string() { Ok(z) => z, Err(e) => { fail("cannot be written as Zinc", "", e.to_string()); unreachable!() } };
                match from_str(&z) { Ok(b) if dbg(&b) == dbg(&v) => { if let Ok(z2) = b.to_zinc_string() { if z2 != z { fail("Zinc re-encoding differs", &z, z2); } } } other => fail("Zinc round trip", &z, format!("{other:?}")) }
                match refzinc::parse(&z) { Ok(b) if dbg(&b) == dbg(&v) => {} other => fail("the reference Zinc reader disagrees", &z, format!("{other:?}")) }
                let j = match serde_json::to_string(&v) { Ok(j) => j, Err(e) => { fail("cannot be written as Hayson", "", e.to_string()); unreachable!() } };
                match serde_json::from_str::<Value>(&j) { Ok(b) if dbg(&b) == dbg(&v) => { if let Ok(j2) = serde_json::to_string(&b) { if j2 != j { fail("Hayson re-encoding differs", &j, j2); } } } other => fail("Hayson round trip", &j, format!("{other:?}")) }
                match serde_json::from_str::<serde_json::Value>(&j).map_err(|e| e.to_string()).and_then(|t| refhayson::decode(&t)) { Ok(b) if dbg(&b) == dbg(&v) => {} other => fail("the reference Hayson reader disagrees", &j, format!("{other:?}")) }
            }
            println!("RESULT enum:random-values seed={seed}: {count} random well-formed values survive Zinc and Hayson round trips, both reference readers and one re-encoding");
        }
        // ---- C04 reader side, thorough and quick: seeded random values spelled by the independent reference writer in a random legal
        //      spelling must be decoded by libhaystack to the value they denote
        "enum:random-spellings" => {
            use randgen::*;
            let seed: u64 = std::env::var("VERIF_SEED").ok().and_then(|s| s.parse().ok()).unwrap_or(0);
            let count: usize = args.get(2).and_then(|s| s.parse().ok()).unwrap_or(1500);
            let mut rng = Rng::seeded(seed ^ 0x5555);
            for i in 0..count {
                let v = value(&mut rng, 0, &IDS, &STRS, &UNITS, &ZONES);
                let text = refwrite::top(&v, &mut rng);
                let got = from_str(&text);
                if !matches!(&got, Ok(b) if format!("{:?}", norm(b)) == format!("{:?}", norm(&v))) {
                    println!("RESULT enum:random-spellings seed={seed} value #{i} {v:?}: the legal spelling {text:?} is decoded as {got:?}");
                    std::process::exit(3);
                }
            }
            println!("RESULT enum:random-spellings seed={seed}: {count} random values in random legal spellings are decoded to the value they denote");
        }
        // ---- C05 reader side: seeded random values spelled by the independent Hayson writer in a random legal spelling must be decoded to the value
        "enum:random-hayson-spellings" => {
            use randgen::*;
            let seed: u64 = std::env::var("VERIF_SEED").ok().and_then(|s| s.parse().ok()).unwrap_or(0);
            let count: usize = args.get(2).and_then(|s| s.parse().ok()).unwrap_or(1500);
            let mut rng = Rng::seeded(seed ^ 0xAAAA);
            for i in 0..count {
                let v = value(&mut rng, 0, &IDS, &STRS, &UNITS, &ZONES);
                let text = refhaysonwrite::value(&v, &mut rng);
                let got = serde_json::from_str::<Value>(&text);
                if !matches!(&got, Ok(b) if format!("{:?}", norm(b)) == format!("{:?}", norm(&v))) {
                    println!("RESULT enum:random-hayson-spellings seed={seed} value #{i} {v:?}: the Hayson document {text} is decoded as {got:?}");
                    std::process::exit(3);
                }
            }
            println!("RESULT enum:random-hayson-spellings seed={seed}: {count} random values in random legal Hayson spellings are decoded to the value they denote");
        }
        // ---- C08 (and C07 through it): seeded random filter trees, every term kind and literal kind, printed by the library and by an independent
        //      printer with random legal spacing; both texts must parse back to the tree they were printed from
        "enum:random-filters" => {
            use libhaystack::filter::nodes::*;
            use libhaystack::filter::path::Path;
            use libhaystack::filter::Filter;
            use libhaystack::val::{Date, DateTime, Ref, Symbol, Time};
            use randgen::Rng;
            let seed: u64 = std::env::var("VERIF_SEED").ok().and_then(|s| s.parse().ok()).unwrap_or(0);
            let count: usize = args.get(2).and_then(|s| s.parse().ok()).unwrap_or(800);
            let mut rng = Rng::seeded(seed ^ 0x0F0F);
            let path_texts = ["a", "siteRef", "x1", "camelCase", "a->b", "equipRef->siteRef->dis", "with_under->n"];
            let paths: Vec<(Path, &str)> = path_texts.iter().map(|t| match &Filter::try_from(*t).expect("path").or.ands[0].terms[0] { Term::Has(h) => (h.path.clone(), *t), _ => panic!("path") }).collect();
            fn ws(rng: &mut Rng) -> &'static str { ["", " ", "  ", "\n", " \t"][rng.below(5)] }
            fn sp(rng: &mut Rng) -> &'static str { [" ", "  ", "\n", " \t "][rng.below(4)] }
            let lit = |rng: &mut Rng| -> (Value, String) {
                match rng.below(10) {
                    0 => { let x = *rng.pick(&[0.0, 1.0, -1.5, 1e-7, 123456.789, 1e21, -9876543210.5, 0.1 + 0.2]); let v = Value::make_number(x); let t = if rng.below(2) == 0 { format!("{x:e}") } else { format!("{x}") }; (v, t) }
                    1 => { let u = libhaystack::units::get_unit_or_default(*rng.pick(&["kg", "%", "kW", "s"])); let x = *rng.pick(&[5.0, -2.5, 100.0]); (Value::make_number_unit(x, u), format!("{x}{}", u.symbol())) }
                    2 => { let t = *rng.pick(&["", "a b", "q\"uote", "back\\slash", "$d", "\u{e9}\n"]); (Value::make_str(t), { use libhaystack::encoding::zinc::encode::ToZinc; Value::make_str(t).to_zinc_string().unwrap() }) }
                    3 => (Value::make_ref("p:demo:r:1"), "@p:demo:r:1".into()),
                    4 => (Value::make_ref_with_dis("s-1", "Site 1"), "@s-1 \"Site 1\"".into()),
                    5 => (Value::make_uri("http://x/y?z=1"), "`http://x/y?z=1`".into()),
                    6 => (Value::make_symbol("hot-water"), "^hot-water".into()),
                    7 => { let b = rng.below(2) == 0; (Value::make_bool(b), if b { "true".into() } else { "false".into() }) }
                    8 => if rng.below(2) == 0 { (Value::make_date(Date::from_ymd(2021, 6, 1).unwrap()), "2021-06-01".into()) } else { (Value::make_time(Time::from_hms_milli(12, 30, 5, 500).unwrap()), "12:30:05.5".into()) },
                    _ => if rng.below(2) == 0 { (Value::make_datetime(DateTime::parse_from_rfc3339("2021-06-01T12:00:00Z").unwrap()), "2021-06-01T12:00:00Z".into()) }
                         else { (Value::make_datetime(DateTime::parse_from_rfc3339_with_timezone("2021-06-01T12:00:00-04:00", "New_York").unwrap()), "2021-06-01T12:00:00-04:00 New_York".into()) },
                }
            };
            fn gen_or(rng: &mut Rng, depth: usize, paths: &[(Path, &str)], lit: &dyn Fn(&mut Rng) -> (Value, String)) -> (Or, String) {
                let n = 1 + rng.below(3); let mut ands = vec![]; let mut t = String::new();
                for i in 0..n { let (a, at) = gen_and(rng, depth, paths, lit); if i > 0 { t.push_str(sp(rng)); t.push_str("or"); t.push_str(sp(rng)); } t.push_str(&at); ands.push(a); }
                (Or { ands }, t)
            }
            fn gen_and(rng: &mut Rng, depth: usize, paths: &[(Path, &str)], lit: &dyn Fn(&mut Rng) -> (Value, String)) -> (And, String) {
                let n = 1 + rng.below(3); let mut terms = vec![]; let mut t = String::new();
                for i in 0..n { let (a, at) = gen_term(rng, depth, paths, lit); if i > 0 { t.push_str(sp(rng)); t.push_str("and"); t.push_str(sp(rng)); } t.push_str(&at); terms.push(a); }
                (And { terms }, t)
            }
            fn gen_term(rng: &mut Rng, depth: usize, paths: &[(Path, &str)], lit: &dyn Fn(&mut Rng) -> (Value, String)) -> (Term, String) {
                let (p, pt) = paths[rng.below(paths.len())].clone();
                match rng.below(if depth < 2 { 8 } else { 7 }) {
                    0 => (Term::Has(Has { path: p }), pt.to_string()),
                    1 => (Term::Missing(Missing { path: p }), format!("not{}{pt}", sp(rng))),
                    2 | 3 => { let (op, ot) = [(CmpOp::Eq, "=="), (CmpOp::NotEq, "!="), (CmpOp::LessThan, "<"), (CmpOp::LessThanEq, "<="), (CmpOp::GreatThan, ">"), (CmpOp::GreatThanEq, ">=")][rng.below(6)].clone();
                        let (v, vt) = lit(rng); (Term::Cmp(Cmp { path: p, op, value: v }), format!("{pt}{}{ot}{}{vt}", ws(rng), ws(rng))) }
                    4 => (Term::IsA(IsA { symbol: Symbol::from("site") }), "^site".into()),
                    5 => (Term::WildcardEq(WildcardEq { id: p, ref_value: Ref::make("r1", None) }), format!("{pt}{}*=={}@r1", ws(rng), ws(rng))),
                    6 => match rng.below(3) { 0 => (Term::Relation(Relation { rel: Symbol::from("inputs"), rel_term: None, ref_value: None }), "inputs?".into()),
                        1 => (Term::Relation(Relation { rel: Symbol::from("inputs"), rel_term: Some(Symbol::from("air")), ref_value: None }), format!("inputs?{}^air", sp(rng))),
                        _ => (Term::Relation(Relation { rel: Symbol::from("inputs"), rel_term: Some(Symbol::from("air")), ref_value: Some(Ref::make("r1", None)) }), format!("inputs?{}^air{}@r1", sp(rng), sp(rng))) },
                    _ => { let (o, ot) = gen_or(rng, depth + 1, paths, lit); (Term::Parens(Parens { or: o }), format!("({}{ot}{})", ws(rng), ws(rng))) }
                }
            }
            for i in 0..count {
                let (or, text) = gen_or(&mut rng, 0, &paths, &lit);
                let want = Filter { or };
                for (what, t) in [("the independent printer's text", text.clone()), ("the library's own text", want.to_string())] {
                    let got = Filter::try_from(t.as_str());
                    if !matches!(&got, Ok(g) if *g == want) {
                        println!("RESULT enum:random-filters seed={seed} filter #{i}: {what} {t:?} parses to {:?}, the tree it was printed from is {:?}", got.map(|g| g.to_string()), want.to_string());
                        std::process::exit(3);
                    }
                }
            }
            println!("RESULT enum:random-filters seed={seed}: {count} random filter trees come back from the library's text and from an independent spelling with random spacing");
        }
        // ---- C06: timestamps in ~90 zones (whole- and fractional-hour offsets, both hemispheres) at instants in winter, in summer and around the
        //      European and American clock changes keep their instant, offset and zone name through Zinc and Hayson
        "enum:zones" => {
            use libhaystack::encoding::zinc::encode::ToZinc;
            use libhaystack::val::DateTime;
            let zones = ["UTC", "London", "Paris", "Berlin", "Madrid", "Rome", "Lisbon", "Dublin", "Athens", "Helsinki", "Moscow", "Istanbul", "Kiev", "Warsaw", "Zurich", "Oslo", "Stockholm",
                "New_York", "Chicago", "Denver", "Los_Angeles", "Phoenix", "Anchorage", "Honolulu", "Toronto", "Vancouver", "Halifax", "St_Johns", "Mexico_City", "Bogota", "Lima", "Santiago",
                "Sao_Paulo", "Buenos_Aires", "Caracas", "Havana", "Cairo", "Johannesburg", "Lagos", "Nairobi", "Casablanca", "Dubai", "Tehran", "Kabul", "Karachi", "Kolkata", "Kathmandu", "Dhaka",
                "Yangon", "Bangkok", "Jakarta", "Singapore", "Hong_Kong", "Shanghai", "Taipei", "Manila", "Seoul", "Tokyo", "Perth", "Eucla", "Darwin", "Adelaide", "Brisbane", "Sydney", "Melbourne",
                "Hobart", "Lord_Howe", "Auckland", "Chatham", "Fiji", "Tongatapu", "Apia", "Kiritimati", "Marquesas", "Tahiti", "Noumea", "Guam", "Reykjavik", "Azores", "Cape_Verde", "Jerusalem",
                "Baghdad", "Riyadh", "Tashkent", "Almaty", "Colombo", "Ulaanbaatar", "Vladivostok", "Kamchatka", "GMT+5", "GMT-10"];
            let instants = ["2021-01-15T12:00:00Z", "2021-07-15T12:00:00Z", "2021-03-28T00:59:59Z", "2021-03-28T01:00:00Z", "2021-10-31T00:30:00Z", "2021-10-31T01:30:00Z", "2021-03-14T06:59:59Z",
                "2021-03-14T10:00:00Z", "2021-11-07T05:30:00Z", "2021-11-07T09:30:00Z", "1999-12-31T23:59:59.999Z", "2038-01-19T03:14:08Z"];
            let (mut n, mut skipped) = (0, vec![]);
            for z in zones {
                let mut ok_zone = false;
                for t in instants {
                    let dt = match if z == "UTC" { DateTime::parse_from_rfc3339(t) } else { DateTime::parse_from_rfc3339_with_timezone(t, z) } { Ok(d) => d, Err(_) => continue };
                    ok_zone = true;
                    let v = Value::make_datetime(dt.clone());
                    let want = (dt.timestamp_nanos_opt(), dt.offset().to_string(), dt.timezone_short_name());
                    let zinc = v.to_zinc_string().unwrap();
                    let json = serde_json::to_string(&v).unwrap();
                    for (what, back) in [("Zinc", from_str(&zinc).map_err(|e| e.to_string())), ("Hayson", serde_json::from_str::<Value>(&json).map_err(|e| e.to_string()))] {
                        n += 1;
                        let got = match &back { Ok(Value::DateTime(b)) => Some((b.timestamp_nanos_opt(), b.offset().to_string(), b.timezone_short_name())), _ => None };
                        if got.as_ref() != Some(&want) {
                            println!("RESULT enum:zones zone={z} instant={t}: {what} text {:?} comes back as {back:?} = {got:?}, expected {want:?}", if what == "Zinc" { &zinc } else { &json });
                            std::process::exit(3);
                        }
                    }
                }
                if !ok_zone { skipped.push(z); }
            }
            println!("RESULT enum:zones {n} round trips over {} zones x {} instants keep instant, offset and zone name; names not accepted by the constructor and skipped: {skipped:?}", zones.len() - skipped.len(), instants.len());
        }
        // ---- C19: Grid::make_from_dicts over seeded random record lists keeps the records as rows, in order, and has exactly one column per
        //      distinct tag name, sorted; typed getters agree with the kind of the value
        "enum:random-kinds-grid" => {
            use libhaystack::val::{Dict, Grid, HaystackDict};
            use randgen::*;
            let seed: u64 = std::env::var("VERIF_SEED").ok().and_then(|s| s.parse().ok()).unwrap_or(0);
            let count: usize = args.get(2).and_then(|s| s.parse().ok()).unwrap_or(400);
            let mut rng = Rng::seeded(seed ^ 0x7171);
            for i in 0..count {
                let recs: Vec<Dict> = (0..rng.below(5)).map(|_| dict(&mut rng, 1, &IDS, &STRS, &UNITS, &ZONES)).collect();
                let g = Grid::make_from_dicts(recs.clone());
                let mut want: Vec<String> = recs.iter().flat_map(|r| r.keys().cloned()).collect(); want.sort(); want.dedup();
                let got: Vec<String> = g.columns.iter().map(|c| c.name.clone()).collect();
                if format!("{:?}", g.rows) != format!("{recs:?}") || got != want || g.columns.iter().any(|c| c.meta.is_some()) {
                    println!("RESULT enum:random-kinds-grid seed={seed} #{i} records={recs:?}: grid rows={:?} columns={got:?}, expected the records as rows and the columns {want:?}", g.rows);
                    std::process::exit(3);
                }
                for r in &recs { for (k, v) in r.iter() {
                    let preds = [v.is_null(), v.is_marker(), v.is_remove(), v.is_na(), v.is_bool(), v.is_number(), v.is_str(), v.is_ref(), v.is_uri(), v.is_symbol(), v.is_date(), v.is_time(), v.is_datetime(), v.is_coord(), v.is_xstr(), v.is_list(), v.is_dict(), v.is_grid()];
                    let getters = [r.get_str(k).is_some() == v.is_str(), r.get_num(k).is_some() == v.is_number(), r.get_ref(k).is_some() == v.is_ref(), r.get_bool(k).is_some() == v.is_bool(),
                        r.get_list(k).is_some() == v.is_list(), r.get_dict(k).is_some() == v.is_dict(), r.get_grid(k).is_some() == v.is_grid(), r.has_marker(k) == v.is_marker()];
                    if preds.iter().filter(|p| **p).count() != 1 || getters.iter().any(|x| !x) {
                        println!("RESULT enum:random-kinds-grid seed={seed} #{i} tag {k}={v:?}: kind predicates {preds:?}, typed getters agree {getters:?}");
                        std::process::exit(3);
                    }
                } }
            }
            println!("RESULT enum:random-kinds-grid seed={seed}: {count} random record lists: rows kept in order, one sorted column per distinct tag, one kind per value, typed getters agree");
        }
        // ---- C11: seeded random values in random legal spellings, read through readers that deliver random chunk sizes and are interrupted at random
        //      calls: the value, and for grids the rows of the lazy iterator, equal what buffer decoding gives
        "enum:random-chunks" => {
            use randgen::*;
            use libhaystack::encoding::zinc::decode::parse_grid_iterator;
            use libhaystack::encoding::zinc::decode::parser::Parser;
            struct Rd<'a> { data: &'a [u8], pos: usize, rng: Rng }
            impl<'a> std::io::Read for Rd<'a> {
                fn read(&mut self, buf: &mut [u8]) -> std::io::Result<usize> {
                    if self.rng.below(4) == 0 { return Err(std::io::Error::new(std::io::ErrorKind::Interrupted, "interrupted")); }
                    let k = (1 + self.rng.below(7)).min(buf.len()).min(self.data.len() - self.pos);
                    buf[..k].copy_from_slice(&self.data[self.pos..self.pos + k]); self.pos += k; Ok(k)
                }
            }
            let seed: u64 = std::env::var("VERIF_SEED").ok().and_then(|s| s.parse().ok()).unwrap_or(0);
            let count: usize = args.get(2).and_then(|s| s.parse().ok()).unwrap_or(600);
            let mut rng = Rng::seeded(seed ^ 0x1234);
            for i in 0..count {
                let v = value(&mut rng, 0, &IDS, &STRS, &UNITS, &ZONES);
                let text = refwrite::top(&v, &mut rng);
                let want = from_str(&text);
                let mut rd = Rd { data: text.as_bytes(), pos: 0, rng: Rng::seeded(rng.next()) };
                let got = Parser::make(&mut rd).and_then(|mut p| p.parse_value());
                let same = match (&got, &want) { (Ok(a), Ok(b)) => format!("{a:?}") == format!("{b:?}"), (Err(_), Err(_)) => true, _ => false };
                if !same { println!("RESULT enum:random-chunks seed={seed} #{i} text={text:?}: from a chunked, interrupted reader {got:?}, from the buffer {want:?}"); std::process::exit(3); }
                if let (Value::Grid(_), Ok(Value::Grid(g))) = (&v, &want) {
                    let mut rd = Rd { data: text.as_bytes(), pos: 0, rng: Rng::seeded(rng.next()) };
                    let rows: Result<Vec<_>, _> = Parser::make(&mut rd).and_then(|mut p| parse_grid_iterator(&mut p).and_then(|it| it.collect::<Result<Vec<_>, _>>()));
                    if !matches!(&rows, Ok(r) if format!("{r:?}") == format!("{:?}", g.rows)) {
                        println!("RESULT enum:random-chunks seed={seed} #{i} text={text:?}: the lazy iterator over a chunked reader gives {rows:?}, buffer decoding the rows {:?}", g.rows); std::process::exit(3); }
                }
            }
            println!("RESULT enum:random-chunks seed={seed}: {count} random texts decode the same from randomly chunked, randomly interrupted readers as from a buffer (rows of the lazy iterator included)");
        }
        // ---- C17: over seeded random values the C entry points agree with the Rust API: the 18 kind tests, Zinc and JSON text out and back in
        "enum:random-capi" => unsafe {
            use libhaystack::c_api::value::*;
            use libhaystack::c_api::zinc::*;
            use libhaystack::c_api::json::*;
            use libhaystack::c_api::str::haystack_string_destroy;
            use libhaystack::encoding::zinc::encode::ToZinc;
            use randgen::*;
            use std::ffi::{CStr, CString};
            let seed: u64 = std::env::var("VERIF_SEED").ok().and_then(|s| s.parse().ok()).unwrap_or(0);
            let count: usize = args.get(2).and_then(|s| s.parse().ok()).unwrap_or(500);
            let mut rng = Rng::seeded(seed ^ 0xC0DE);
            for i in 0..count {
                let v = value(&mut rng, 0, &IDS, &STRS, &UNITS, &ZONES);
                let h: *const Value = &v;
                let c = [haystack_value_is_null(h), haystack_value_is_marker(h), haystack_value_is_remove(h), haystack_value_is_na(h), haystack_value_is_bool(h), haystack_value_is_number(h),
                    haystack_value_is_str(h), haystack_value_is_ref(h), haystack_value_is_uri(h), haystack_value_is_symbol(h), haystack_value_is_date(h), haystack_value_is_time(h),
                    haystack_value_is_datetime(h), haystack_value_is_coord(h), haystack_value_is_xstr(h), haystack_value_is_list(h), haystack_value_is_dict(h), haystack_value_is_grid(h)];
                let r = [v.is_null(), v.is_marker(), v.is_remove(), v.is_na(), v.is_bool(), v.is_number(), v.is_str(), v.is_ref(), v.is_uri(), v.is_symbol(), v.is_date(), v.is_time(),
                    v.is_datetime(), v.is_coord(), v.is_xstr(), v.is_list(), v.is_dict(), v.is_grid()];
                if c != r { println!("RESULT enum:random-capi seed={seed} #{i} value={v:?}: C kind tests {c:?}, Rust {r:?}"); std::process::exit(3); }
                // text out: the C strings are the Rust strings (a text holding a NUL byte cannot be a C string: null is returned)
                let (zr, jr) = (v.to_zinc_string().unwrap(), serde_json::to_string(&v).unwrap());
                for (what, p, want) in [("Zinc", haystack_value_to_zinc_string(h), &zr), ("JSON", haystack_value_to_json_string(h), &jr)] {
                    if p.is_null() { if !want.contains('\0') { println!("RESULT enum:random-capi seed={seed} #{i} value={v:?}: C {what} encoder returned null, Rust {want:?}"); std::process::exit(3); } continue; }
                    let got = CStr::from_ptr(p).to_str().map(|t| t.to_string());
                    haystack_string_destroy(p as *mut _);
                    if got.as_deref() != Ok(want.as_str()) { println!("RESULT enum:random-capi seed={seed} #{i} value={v:?}: C {what} text {got:?}, Rust {want:?}"); std::process::exit(3); }
                }
                // text in
                if !zr.contains('\0') {
                    let cz = CString::new(zr.as_str()).unwrap(); let cj = CString::new(jr.as_str()).unwrap();
                    for (what, back) in [("Zinc", haystack_value_from_zinc_string(cz.as_ptr())), ("JSON", haystack_value_from_json_string(cj.as_ptr()))] {
                        if !matches!(&back, Some(b) if format!("{:?}", norm(b)) == format!("{:?}", norm(&v))) { println!("RESULT enum:random-capi seed={seed} #{i} value={v:?}: C {what} decoder gives {back:?}"); std::process::exit(3); }
                    }
                }
            }
            println!("RESULT enum:random-capi seed={seed}: {count} random values: C kind tests, Zinc / JSON text out and back in agree with the Rust API");
        },
        // ---- C09 enumerator (evaluation half): `id *== @ref` over resolvers whose refs form chains and cycles of several shapes must
        //      terminate with the right answer; a run that does not come back is reported as a hang by the caller's watchdog
        "enum:wildcard-cycles" => {
            use libhaystack::defs::namespace::DEFAULT_NS;
            use libhaystack::filter::eval::{Eval, EvalContext};
            use libhaystack::filter::path::Path;
            use libhaystack::filter::{Filter, PathResolver};
            use libhaystack::val::{Dict, Ref};
            struct Records { recs: Vec<Dict> }
            impl PathResolver for Records {
                fn resolve_for(&self, root: &Dict, path: &Path) -> Value {
                    if path.is_empty() || root.is_empty() { return Value::Null; }
                    let mut cur = Value::Dict(root.clone());
                    for segment in path.iter() {
                        let name = segment.to_string();
                        cur = match &cur { Value::Dict(d) => d.get(&name).cloned().unwrap_or(Value::Null), _ => Value::Null };
                        if cur.is_null() { break; }
                    }
                    cur
                }
                fn resolve(&self, _path: &Path) -> Value { Value::Null }
                fn resolve_ref(&self, id: &Ref) -> Option<Dict> {
                    self.recs.iter().find(|rec| matches!(rec.get("id"), Some(Value::Ref(r)) if r == id)).cloned()
                }
            }
            let rec = |id: &str, next: Option<&str>| { let mut d = Dict::new(); d.insert("id".into(), Value::make_ref(id));
                if let Some(n) = next { d.insert("chainRef".into(), Value::make_ref(n)); } d };
            // (records, target, expected): straight chain, cycle through the first ref, cycle behind the first ref, self loop,
            // dangling ref, a ref that resolves to a record without the tag
            let cases: Vec<(Vec<Dict>, &str, bool)> = vec![
                (vec![rec("p", Some("a")), rec("a", Some("b")), rec("b", Some("c")), rec("c", None)], "c", true),
                (vec![rec("p", Some("a")), rec("a", Some("b")), rec("b", Some("a"))], "z", false),
                (vec![rec("p", Some("a")), rec("a", Some("b")), rec("b", Some("c")), rec("c", Some("b"))], "z", false),
                (vec![rec("p", Some("a")), rec("a", Some("b")), rec("b", Some("c")), rec("c", Some("b"))], "c", true),
                (vec![rec("p", Some("p"))], "z", false),
                (vec![rec("p", Some("a"))], "z", false),
                (vec![rec("p", Some("a")), rec("a", None)], "z", false),
                (vec![rec("p", Some("a")), { let mut d = Dict::new(); d.insert("id".into(), Value::make_ref("a")); d }, rec("b", Some("a"))], "b", false),
            ];
            for (i, (recs, target, want)) in cases.into_iter().enumerate() {
                let text = format!("chainRef *== @{target}");
                let filter = Filter::try_from(text.as_str()).expect("filter text");
                let db = Records { recs };
                let first = db.recs[0].clone();
                let cx = EvalContext::make(&first, &DEFAULT_NS, &db);
                println!("B {i}");
                let got = filter.eval(&cx);
                if got != want {
                    println!("RESULT enum:wildcard-cycles case {i}: {text} over {:?} = {got}, expected {want}", db.recs);
                    std::process::exit(3);
                }
            }
            println!("RESULT enum:wildcard-cycles 8 ref-chain shapes (straight, cycles through and behind the first ref, self loop, dangling, tag missing) terminate with the right answer");
        }
        // ---- C07 enumerator: a small universe of filters x records against an oracle written from the filter semantics; exit 3 on mismatch
        "enum:filter-eval" => {
            use libhaystack::filter::*;
            use libhaystack::val::Dict;
            fn walk<'a>(rec: &'a Dict, path: &[&str]) -> Option<&'a Value> {
                let mut cur: Option<&Value> = None;
                let mut d = rec;
                for (i, seg) in path.iter().enumerate() {
                    match d.get(*seg) { Some(v) if !v.is_null() => cur = Some(v), _ => return None }
                    if i + 1 < path.len() { match cur { Some(Value::Dict(n)) => d = n, _ => return None } }
                }
                cur
            }
            let mut inner = Dict::new(); inner.insert("b".into(), Value::make_int(2)); inner.insert("m".into(), Value::Marker);
            let mut r1 = Dict::new(); r1.insert("a".into(), Value::make_int(1)); r1.insert("b".into(), Value::make_str("s"));
            let mut r2 = Dict::new(); r2.insert("a".into(), Value::make_dict(inner.clone()));
            let r3 = Dict::new();
            let mut r4 = Dict::new(); r4.insert("a".into(), Value::Null); r4.insert("b".into(), Value::make_int(5));
            let mut r5 = Dict::new(); r5.insert("a".into(), Value::make_list(vec![Value::make_int(7), Value::make_int(1)])); r5.insert("x".into(), Value::Marker);
            // NaN stands in no ordering relation to any literal and is unequal to every literal
            let mut r6 = Dict::new(); r6.insert("a".into(), Value::make_number(f64::NAN)); r6.insert("b".into(), Value::make_list(vec![Value::make_number(f64::NAN), Value::make_int(1)]));
            let recs = [r1, r2, r3, r4, r5, r6];
            let paths: [&[&str]; 5] = [&["a"], &["b"], &["a", "b"], &["a", "m"], &["a", "b", "c"]];
            let num = |v: Option<&Value>, f: &dyn Fn(f64) -> bool| -> bool { match v {
                Some(Value::Number(n)) => f(n.value),
                Some(Value::List(l)) => l.iter().any(|e| matches!(e, Value::Number(n) if f(n.value))),
                _ => false } };
            let mut n = 0;
            for rec in &recs { for p in paths {
                let pt = p.join("->");
                let v = walk(rec, p);
                let cases: Vec<(String, bool)> = vec![
                    (pt.clone(), v.is_some()),
                    (format!("not {pt}"), v.is_none()),
                    (format!("{pt} == 1"), num(v, &|x| x == 1.0)),
                    (format!("{pt} < 2"), num(v, &|x| x < 2.0)),
                    (format!("{pt} >= 2"), num(v, &|x| x >= 2.0)),
                    (format!("{pt} > 0"), num(v, &|x| x > 0.0)),
                    (format!("{pt} <= 2"), num(v, &|x| x <= 2.0)),
                    (format!("{pt} != 1"), match v {
                        Some(Value::List(l)) => l.iter().any(|e| !matches!(e, Value::Number(n) if n.value == 1.0 && n.unit.is_none())),
                        Some(Value::Number(n)) => !(n.value == 1.0 && n.unit.is_none()),
                        Some(_) => true,
                        None => false }),
                    (format!("{pt} and x"), v.is_some() && walk(rec, &["x"]).is_some()),
                    (format!("{pt} or x"), v.is_some() || walk(rec, &["x"]).is_some()),
                    (format!("not {pt} and not x or b"), (v.is_none() && walk(rec, &["x"]).is_none()) || walk(rec, &["b"]).is_some()),
                    // a group whose first operand is itself a group: nothing of the outer group may be lost
                    (format!("(({pt} or x) and b)"), (v.is_some() || walk(rec, &["x"]).is_some()) && walk(rec, &["b"]).is_some()),
                    (format!("x or (({pt}) and not b)"), walk(rec, &["x"]).is_some() || (v.is_some() && walk(rec, &["b"]).is_none())),
                ];
                for (text, want) in cases {
                    let f = Filter::try_from(text.as_str()).expect("filter text");
                    let got = rec.filter(&f);
                    n += 1;
                    if got != want {
                        println!("RESULT enum:filter-eval record={rec:?} filter={text:?} matched={got} expected={want}");
                        std::process::exit(3);
                    }
                }
            } }
            // grids: a single match is the first matching row, all matches are the matching rows in order
            {
                use libhaystack::val::Grid;
                let mk = |pairs: &[(&str, Value)]| { let mut d = Dict::new(); for (k, v) in pairs { d.insert((*k).into(), v.clone()); } d };
                let rows = vec![mk(&[("b", Value::make_int(0))]), mk(&[("a", Value::make_int(1))]), mk(&[("a", Value::make_int(2))]), mk(&[("b", Value::make_int(1))]), mk(&[("a", Value::make_int(3))])];
                let grid = Grid::make_from_dicts(rows.clone());
                for text in ["a", "b", "a >= 2", "c", "a or b"] {
                    let f = Filter::try_from(text).expect("filter text");
                    let want: Vec<&Dict> = rows.iter().filter(|r| r.filter(&f)).collect();
                    let first = Filtered::filter(&grid, &f);
                    let all = ListFiltered::filter_all(&grid, &f);
                    n += 1;
                    if first != want.first().copied() || all != want {
                        println!("RESULT enum:filter-eval grid rows={rows:?} filter={text:?} first={first:?} all={all:?} expected={want:?}");
                        std::process::exit(3);
                    }
                }
            }
            println!("RESULT enum:filter-eval {n} filter x record cases agree with the oracle");
        }
        // ---- C06 enumerator: every whole-hour offset -12:00..+14:00 and some fractional ones: accepted with the same instant and
        //      offset, or rejected; exit 3 on a changed instant
        "enum:rfc3339-offsets" => {
            let mut texts: Vec<String> = vec![];
            for h in -12i32..=14 { texts.push(format!("2021-06-01T12:34:56.789{}{:02}:00", if h < 0 { '-' } else { '+' }, h.abs())); }
            for t in ["2021-06-01T12:34:56Z", "2021-01-15T12:00:00-03:30", "2021-06-19T19:48:23+05:30", "2021-06-19T19:48:23+05:45", "2021-03-28T01:30:00+00:00", "2021-06-01T00:00:00-00:00"] { texts.push(t.to_string()); }
            let mut accepted = 0;
            for text in &texts {
                let want = chrono::DateTime::parse_from_rfc3339(text).expect("chrono accepts the text");
                if let Ok(d) = DateTime::parse_from_rfc3339(text) {
                    accepted += 1;
                    let got = chrono::DateTime::parse_from_rfc3339(&d.to_rfc3339()).expect("re-parse");
                    if got.timestamp_millis() != want.timestamp_millis() || got.offset() != want.offset() {
                        println!("RESULT enum:rfc3339-offsets {text} -> {} (instant {} vs {})", d.to_rfc3339(), got.timestamp_millis(), want.timestamp_millis());
                        std::process::exit(3);
                    }
                }
            }
            println!("RESULT enum:rfc3339-offsets {} offset texts: {accepted} accepted with the same instant and offset, the others rejected", texts.len());
        }
        // ---- C06: RFC 3339 text -> DateTime keeps the instant (or is rejected); exit 3 = different instant
        "rfc3339" => {
            let text = &args[2];
            let want = chrono::DateTime::parse_from_rfc3339(text).expect("chrono accepts the text");
            match DateTime::parse_from_rfc3339(text) {
                Ok(d) => {
                    let got = chrono::DateTime::parse_from_rfc3339(&d.to_rfc3339()).expect("re-parse");
                    println!("RESULT rfc3339 {text} -> {} (instant {} vs {})", d.to_rfc3339(), got.timestamp_millis(), want.timestamp_millis());
                    if got.timestamp_millis() != want.timestamp_millis() || got.offset() != want.offset() { std::process::exit(3); }
                }
                Err(e) => println!("RESULT rfc3339 {text} -> rejected: {e}"),
            }
        }
        // fixed-tz: raw bytes of the harness inputs ([d0,d1,d2,d3], neg) -> RFC 3339 text with that offset
        "fixed-tz" => {
            let d = unhex(&args[2]);
            let neg = unhex(&args[3])[0] != 0;
            let text = format!("2021-01-01T10:00:00{}{}{}:{}{}", if neg { '-' } else { '+' }, d[0] as char, d[1] as char, d[2] as char, d[3] as char);
            match chrono::DateTime::parse_from_rfc3339(&text) {
                Err(_) => println!("RESULT fixed-tz {text} is not an offset chrono accepts; not replayable"),
                Ok(want) => match DateTime::parse_from_rfc3339(&text) {
                    Ok(dt) => {
                        let got = chrono::DateTime::parse_from_rfc3339(&dt.to_rfc3339()).expect("re-parse");
                        println!("RESULT fixed-tz {text} -> {} (instant {} vs {})", dt.to_rfc3339(), got.timestamp_millis(), want.timestamp_millis());
                        if got.timestamp_millis() != want.timestamp_millis() { std::process::exit(3); }
                    }
                    Err(e) => println!("RESULT fixed-tz {text} -> rejected: {e}"),
                },
            }
        }
        // ---- C07: comparison kernel through the public filter API; args: hex of each kani::any() in harness order
        f if f.starts_with("filter-cmp:") => {
            use libhaystack::filter::*;
            let op = &f["filter-cmp:".len()..];
            let raw: Vec<Vec<u8>> = args[2..].iter().map(|a| unhex(a)).collect();
            let f64at = |i: usize| f64::from_le_bytes(raw[i][..8].try_into().unwrap());
            let k = raw[0][0];
            let (lhs, next) = match k {
                0 => (Value::Null, 1), 1 => (Value::Marker, 1), 2 => (Value::Na, 1), 3 => (Value::Remove, 1),
                4 => (Value::make_bool(raw[1][0] != 0), 2),
                5 => (Value::make_coord_from(f64at(1), f64at(2)), 3),
                _ => (Value::make_number(f64at(1)), 2),
            };
            let y = f64at(next);
            if !y.is_finite() { println!("RESULT filter-cmp literal {y} cannot be written as filter text; not replayable"); return; }
            let sym = match op { "eq" => "==", "ne" => "!=", "lt" => "<", "le" => "<=", "gt" => ">", _ => ">=" };
            let text = format!("x {sym} {y:?}");
            let filter = Filter::try_from(text.as_str()).expect("filter");
            let mut d = Dict::new();
            if !lhs.is_null() { d.insert("x".into(), lhs.clone()); }
            let got = d.filter(&filter);
            let x = if let Value::Number(n) = &lhs { Some(n.value) } else { None };
            let want = match op {
                "eq" => x == Some(y), "ne" => !lhs.is_null() && x != Some(y),
                "lt" => x.map_or(false, |x| x < y), "le" => x.map_or(false, |x| x <= y),
                "gt" => x.map_or(false, |x| x > y), _ => x.map_or(false, |x| x >= y),
            };
            println!("RESULT filter-cmp record={{x:{lhs:?}}} filter={text:?} matched={got} expected={want}");
            if got != want { std::process::exit(3); }
        }
        // ---- C12: equality / hash / order laws on the real impls; exit 3 = a law is violated
        "number-laws" | "number-hash" => {
            let f = |i: usize| args[i].parse::<f64>().unwrap();
            let (a, b) = (Number::make(f(2)), Number::make(f(3)));
            let c = if args.len() > 4 { Number::make(f(4)) } else { a };
            let bad = laws(&a, &b, &c);
            println!("RESULT {fam} a={a:?} b={b:?} c={c:?} eq={} cmp={:?} partial={:?} hash_eq={} violated={bad:?}", a == b, a.cmp(&b), a.partial_cmp(&b), h(&a) == h(&b));
            if !bad.is_empty() { std::process::exit(3); }
        }
        "number-units" => {
            // two database units that differ only in their identifiers (same quantity, dimensions, scale, offset) -- the
            // closest real counterparts of the harness' synthetic units "m" and "s"
            let pick = |k: u8| match k { 0 => None, 1 => libhaystack::units::get_unit("pixel"), _ => libhaystack::units::get_unit("decibel") };
            let (ka, kb) = (args[2].parse::<u8>().unwrap(), args[3].parse::<u8>().unwrap());
            let a = Number { value: args[4].parse::<f64>().unwrap(), unit: pick(ka) };
            let b = Number { value: args[5].parse::<f64>().unwrap(), unit: pick(kb) };
            let mut bad = laws(&a, &b, &a);
            // C16: + and - fail exactly for two different units, else keep the common unit
            let differ = ka != 0 && kb != 0 && ka != kb;
            let sum = a + b;
            if sum.is_err() != differ { bad.push("add-fails-iff-different-units"); }
            println!("RESULT {fam} a={a:?} b={b:?} eq={} cmp={:?} partial={:?} add={:?} violated={bad:?}", a == b, a.cmp(&b), a.partial_cmp(&b), sum.map(|n| n.value));
            if !bad.is_empty() { std::process::exit(3); }
        }
        "coord-laws" | "coord-hash" => {
            let f = |i: usize| args[i].parse::<f64>().unwrap();
            let (a, b) = (Coord::make(f(2), f(3)), Coord::make(f(4), f(5)));
            let c = if args.len() > 7 { Coord::make(f(6), f(7)) } else { a };
            let bad = laws(&a, &b, &c);
            println!("RESULT {fam} a={a:?} b={b:?} c={c:?} eq={} cmp={:?} partial={:?} hash_eq={} violated={bad:?}", a == b, a.cmp(&b), a.partial_cmp(&b), h(&a) == h(&b));
            if !bad.is_empty() { std::process::exit(3); }
        }
        // batch <zinc|filter>: hex inputs on stdin, one per line; "B i" before, "E i <ok|err|panic>" after each
        "batch" => {
            use std::io::{BufRead, Write};
            let which = args[2].clone();
            std::panic::set_hook(Box::new(|_| {}));
            let stdin = std::io::stdin();
            let out = std::io::stdout();
            for (i, line) in stdin.lock().lines().enumerate() {
                let line = match line { Ok(l) => l, Err(_) => break };
                let bytes = unhex(line.trim());
                { let mut o = out.lock(); let _ = writeln!(o, "B {i}"); let _ = o.flush(); }
                let w = which.clone();
                let r = std::panic::catch_unwind(move || {
                    if w == "zinc" {
                        let mut cur = std::io::Cursor::new(bytes);
                        libhaystack::encoding::zinc::decode::parser::Parser::make(&mut cur).and_then(|mut p| p.parse_value()).is_ok()
                    } else {
                        let s = String::from_utf8_lossy(&bytes).to_string();
                        Filter::try_from(s.as_str()).is_ok()
                    }
                });
                let mut o = out.lock();
                let _ = writeln!(o, "E {i} {}", match r { Ok(true) => "ok", Ok(false) => "err", Err(_) => "panic" });
                let _ = o.flush();
            }
        }
        _ => {
            eprintln!("unknown family {fam}");
            std::process::exit(2);
        }
    }
    let _ = Value::Null;
}
