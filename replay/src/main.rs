//! Replays inputs on the real (non-Kani, non-extracted) libhaystack built from /repo's working tree.
//! usage: replay <family> <args...>; prints one line `RESULT <family> <what happened>`; exit 0 always
//! unless the real code panics (exit 101) or hangs (the caller's watchdog kills it).
use libhaystack::encoding::zinc::decode::from_str;
use libhaystack::filter::Filter;
use libhaystack::val::*;

fn unhex(s: &str) -> Vec<u8> {
    (0..s.len() / 2).map(|i| u8::from_str_radix(&s[2 * i..2 * i + 2], 16).unwrap()).collect()
}

fn main() {
    let args: Vec<String> = std::env::args().collect();
    let fam = args.get(1).map(|s| s.as_str()).unwrap_or("");
    match fam {
        // decode a Zinc document given as hex bytes
        "zinc" => {
            let bytes = unhex(&args[2]);
            let mut cur = std::io::Cursor::new(bytes);
            let r = libhaystack::encoding::zinc::decode::parser::Parser::make(&mut cur).and_then(|mut p| p.parse_value());
            println!("RESULT zinc {}", match r { Ok(v) => format!("ok {:?}", v), Err(e) => format!("err {e}") });
        }
        "zinc-str" => {
            let r = from_str(&args[2]);
            println!("RESULT zinc {}", match r { Ok(v) => format!("ok {:?}", v), Err(e) => format!("err {e}") });
        }
        // parse a filter given as hex bytes (must be utf-8)
        "filter" => {
            let bytes = unhex(&args[2]);
            let s = String::from_utf8_lossy(&bytes).to_string();
            let r = Filter::try_from(s.as_str());
            println!("RESULT filter {}", match r { Ok(f) => format!("ok {f}"), Err(e) => format!("err {e}") });
        }
        _ => {
            eprintln!("unknown family {fam}");
            std::process::exit(2);
        }
    }
    let _ = Value::Null;
}
